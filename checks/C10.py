"""C10 — nearest-neighbour structures answer exactly like exhaustive search.
prove:      coq/Properties_C10.v (exhaustive specification laws; removal; sqrt-approx membership; GNAT pruning
            soundness for a metric; meaning of the executable tree invariant; the examined-suffices search lemma)
correspond: NearestNeighborsGNAT, GNATNoThreadSafety, Linear, SqrtApprox of /repo on 2-D integer points (L1 metric)
            vs the extracted specification model: sizes, contents, nearest / k / radius answers as distance
            sequences (Linear and SqrtApprox element-exact); dumps of the real GNAT trees are parsed and the
            extracted invariant checker (whose meaning is proved) is run on them
search:     brute-force evaluation of the C10 statement on the implementation's answers (python, independent)
"""
import os, re, collections
import vf

PARAMS = [(8, 4, 12, 50, 500, 0), (3, 2, 4, 2, 3, 0), (2, 2, 2, 1, 1, 0), (4, 2, 6, 6, 5, 0), (3, 2, 5, 3, 2, 1), (8, 4, 12, 2, 500, 0),
          (6, 3, 8, 4, 4, 1), (2, 2, 3, 3, 50, 0), (5, 2, 7, 1, 2, 0)]
NAMES = ["GNAT", "GNATNoThreadSafety", "Linear", "SqrtApprox"]


def gen_history(rng, i, hist):
    p = PARAMS[i % len(PARAMS)]
    lines = ["NEW %d %d %d %d %d %d" % p]
    dist = rng.choice(["lattice", "lattice", "dups", "clusters", "line"])
    def pt():
        if dist == "lattice": return (rng.randint(0, 6), rng.randint(0, 6))
        if dist == "dups": return (rng.randint(0, 2), rng.randint(0, 1))
        if dist == "line": return (rng.randint(-20, 20), 0)
        c = rng.choice([(0, 0), (1000, 1000), (-500, 700)]); return (c[0] + rng.randint(0, 3), c[1] + rng.randint(0, 3))
    present = []
    for _ in range(rng.randint(5, 170 if i % 3 else 40)):
        r = rng.random()
        if r < 0.30 or not present:
            q = pt(); lines.append("A %d %d" % q); present.append(q)
        elif r < 0.36:
            n = rng.randint(0, 12); qs = [pt() for _ in range(n)]
            lines.append("AL %d %s" % (n, " ".join("%d %d" % q for q in qs))); present += qs
        elif r < 0.56:
            q = rng.choice(present) if rng.random() < 0.85 else pt()
            lines.append("R %d %d" % q)
            if q in present: present.remove(q)
        elif r < 0.58:
            lines.append("C"); present = []
        elif r < 0.70: lines.append("N %d %d" % pt())
        elif r < 0.82: lines.append("K %d %d %d" % ((rng.choice([0, 1, 2, 3, 5, 8, 1000]),) + pt()))
        elif r < 0.92: lines.append("RAD %d %d %d" % ((rng.choice([0, 1, 2, 4, 10, 100000]),) + pt()))
        elif r < 0.95: lines.append("LST")
        elif r < 0.96: lines.append("SZ")
        else:
            # a dump followed by queries on the same state: the GNAT search model is run on the dumped tree
            lines.append("DUMP"); hist["DUMP"] += 1
            for _ in range(rng.randint(2, 5)):
                t = rng.random()
                if t < 0.25: lines.append("N %d %d" % pt())
                elif t < 0.65: lines.append("K %d %d %d" % ((rng.choice([1, 1, 2, 3, 5, 8, 1000]),) + pt()))
                else: lines.append("RAD %d %d %d" % ((rng.choice([0, 1, 2, 4, 10, 100000]),) + pt()))
                hist[lines[-1].split()[0]] += 1
            continue
        hist[lines[-1].split()[0]] += 1
    lines += ["LST", "SZ", "DUMP"]
    return lines


NODE = re.compile(r"degree:\t(\d+)\|minRadius:\t(\S+)\|maxRadius:\t(\S+)\|minRange:\t([^|]*)\|maxRange: ([^|]*)\|pivot:\t(\S+)\|data: ([^|]*)\|this:\t(\S+)\|children:\|([^|]*)\|")


def parse_dump(txt):
    """-> (TREE token string, removed list) or None for an empty structure"""
    nodes = {}
    order = []
    for m in NODE.finditer(txt):
        deg, mn, mx, rmin, rmax, piv, data, this, ch = m.groups()
        nodes[this] = dict(mn=mn, mx=mx, rmin=rmin.split(), rmax=rmax.split(), piv=piv, data=data.split(), ch=ch.split())
        order.append(this)
    if not order: return None, []
    def num(s):
        return s if s in ("inf", "-inf") else str(int(float(s)))
    def tok(this):
        n = nodes[this]
        px, py = n["piv"].split(",")
        t = ["N", px, py, num(n["mn"]), num(n["mx"]), str(len(n["rmin"]))]
        for lo, hi in zip(n["rmin"], n["rmax"]): t += [num(lo), num(hi)]
        t.append(str(len(n["data"])))
        for dd in n["data"]: t += dd.split(",")
        t.append(str(len(n["ch"])))
        for c in n["ch"]: t += tok(c)
        return t
    removed = []
    m = re.search(r"Elements marked for removal:\|([^|]*)\|", txt)
    if m: removed = m.group(1).split()
    return " ".join(tok(order[0])), removed


def canon_full(txt):
    """dump of a GNAT -> the structure string printed by the model driver (degree, pivot, radii, range table, data, children; removal cache)"""
    nodes = {}; order = []
    for m in NODE.finditer(txt):
        deg, mn, mx, rmin, rmax, piv, data, this, ch = m.groups()
        nodes[this] = dict(deg=deg, mn=mn, mx=mx, rmin=rmin.split(), rmax=rmax.split(), piv=piv, data=data.split(), ch=ch.split()); order.append(this)
    def num(x): return "inf" if x in ("inf", "-inf") else str(int(float(x)))
    def tok(this):
        n = nodes[this]
        t = ["N", n["deg"]] + n["piv"].split(",") + [num(n["mn"]), num(n["mx"]), str(len(n["rmin"]))]
        for lo, hi in zip(n["rmin"], n["rmax"]): t += [num(lo), num(hi)]
        t.append(str(len(n["data"])))
        for dd in n["data"]: t += dd.split(",")
        t.append(str(len(n["ch"])))
        for c in n["ch"]: t += tok(c)
        return t
    removed = []
    m = re.search(r"Elements marked for removal:\|([^|]*)\|", txt)
    if m: removed = m.group(1).split()
    body = " ".join(tok(order[0])) if order else "empty"
    return body, sorted(" ".join(r.split(",")) for r in removed)


def gen_struct_history(rng, i):
    """histories without duplicate points (so that the element a removal finds is unique) in tape mode; a DUMP and SZ after every operation"""
    p = PARAMS[i % len(PARAMS)]
    lines = ["NEWT %d %d %d %d %d %d %d" % (p + (rng.randint(0, 63),))]
    present = []; used = set()
    def fresh():
        while True:
            q = (rng.randint(-12, 12), rng.randint(-12, 12)) if rng.random() < 0.8 else (rng.choice([0, 1000, -500]) + rng.randint(0, 5), rng.choice([0, 700]) + rng.randint(0, 5))
            if q not in used: used.add(q); return q
    for _ in range(rng.randint(5, 90)):
        r = rng.random()
        if r < 0.5 or not present: q = fresh(); lines.append("A %d %d" % q); present.append(q)
        elif r < 0.6:
            qs = [fresh() for _ in range(rng.randint(0, 14))]; lines.append("AL %d %s" % (len(qs), " ".join("%d %d" % q for q in qs))); present += qs
        elif r < 0.93:
            if rng.random() < 0.85: q = rng.choice(present); present.remove(q)       # a removed value is not added again before a clear(): the model's removal cache holds values, the library's addresses
            else: q = (rng.randint(13, 40), rng.randint(13, 40))
            lines.append("R %d %d" % q)
        else: lines.append("C"); present = []; used = set()
        lines += ["DUMP", "SZ"]
    return lines


def l1(a, b): return abs(a[0] - b[0]) + abs(a[1] - b[1])


def main():
    c = vf.Check("C10", "proof")
    quick = c.tier == "quick"
    c.prove("Properties_C10.v")
    if not quick:
        c.coqchk("Properties_C10")
    try:
        c.build_ompl()
        drv = c.build_driver("nn_driver", link_ompl=True)
        model = c.build_model()
    except vf.BuildError as ex:
        c.broken.append("correspondence C10: implementation/driver/model does not build: " + str(ex)[-400:])
        c.finish()
    hist = collections.Counter()
    hs = []
    cdir = os.path.join(vf.VERIF, "corpus", "C10")
    files = [c.replay] if c.replay else (sorted(os.path.join(cdir, f) for f in os.listdir(cdir)) if os.path.isdir(cdir) else [])
    for f in files:
        hs.append([l.strip() for l in open(f) if l.strip() and not l.startswith("#")])
    if not c.replay:
        for i in range(270 if quick else 6000):
            hs.append(gen_history(c.rng, i, hist))
    flat = [l for h in hs for l in h]
    rc, o, e, s = vf.sh([drv], input="\n".join(flat) + "\n", timeout=3000)
    c.step("correspond:impl", drv, s, rc == 0)
    io = o.split("\n")
    crashed = rc != 0 or len([x for x in io if x]) < len(flat)
    def run_one(h):
        r = vf.sh([drv], input="\n".join(h) + "\n", timeout=120)
        out = r[1].split("\n")[:len(h)]
        return out + [""] * (len(h) - len(out))
    rc2, o2, e2, s2 = vf.sh([model, "nn"], input="\n".join(l if not l.startswith("DUMP") else "SZ" for l in flat) + "\n", timeout=3000)
    c.step("correspond:model", model + " nn", s2, rc2 == 0)
    mo = o2.split("\n")
    ndiff = npred = 0; first_diff = first_pred = None
    k = 0
    distinct = set()
    trees = []      # (history index, op index, structure, TREE tokens, removed, contents)
    gq = []         # (history index, op index, structure, implementation's distances, GQ line for the search model)
    for hi, h in enumerate(hs):
        outs = run_one(h) if crashed else io[k:k + len(h)]
        mouts = mo[k:k + len(h)]; k += len(h)
        if sum(1 for l in h if l.startswith("R ")) >= 2 and len(h) > 10: distinct.add("\n".join(h))
        present = []
        bad = None; differs = None
        dumped = {}     # structure index -> (TREE tokens, removed) of the last dump, valid until the next modifying op
        for j, (ln, out, mout) in enumerate(zip(h, outs, mouts)):
            w = ln.split()
            if w[0] in ("NEW", "A", "AL", "R", "C"): dumped = {}
            if w[0] == "NEW": present = []; continue
            secs = [x.strip() for x in out.split(" # ")]
            if len(secs) != 4:
                bad = bad or "no observation for '%s' (crash?)" % ln; differs = differs or (j, out, mout); break
            def pts_of(ws): return [tuple(map(int, x.split(":")[-1].split(","))) for x in ws]
            if w[0] == "A": present.append((int(w[1]), int(w[2])))
            elif w[0] == "AL":
                v = list(map(int, w[2:])); present += list(zip(v[0::2], v[1::2]))
            elif w[0] == "C": present = []
            elif w[0] == "R":
                q = (int(w[1]), int(w[2])); exp = "1" if q in present else "0"
                if q in present:
                    idx = len(present) - 1 - present[::-1].index(q); present.pop(idx)
                for si, sc in enumerate(secs):
                    if sc != exp: bad = bad or "%s: remove(%s) answered %s, expected %s" % (NAMES[si], q, sc, exp)
                if secs[0] != mout: differs = differs or (j, out, mout)
            elif w[0] == "SZ":
                for si, sc in enumerate(secs):
                    if sc != str(len(present)): bad = bad or "%s: size() = %s with %d elements held" % (NAMES[si], sc, len(present))
                if secs[0] != mout: differs = differs or (j, out, mout)
            elif w[0] == "LST":
                for si, sc in enumerate(secs):
                    got = pts_of(sc.split()[1:])
                    if sorted(got) != sorted(present): bad = bad or "%s: list() returns %s, held %s" % (NAMES[si], sorted(got)[:8], sorted(present)[:8])
                if " ".join(secs[2].split()) != " ".join(mout.split()) or secs[3] != secs[2]: differs = differs or (j, out, mout)
            elif w[0] == "N":
                q = (int(w[1]), int(w[2]))
                mlin, msq = [x.strip() for x in mout.split(" # ")] if " # " in mout else (mout, mout)
                for si, sc in enumerate(secs):
                    if not present:
                        if sc != "EXC": bad = bad or "%s: nearest on an empty structure did not throw" % NAMES[si]
                        continue
                    if sc == "EXC": bad = bad or "%s: nearest threw on a non-empty structure" % NAMES[si]; continue
                    dd, el = sc.split(":"); el = tuple(map(int, el.split(",")))
                    if el not in present: bad = bad or "%s: nearest returned %s which is not held" % (NAMES[si], el)
                    if si < 3 and int(float(dd)) != min(l1(x, q) for x in present): bad = bad or "%s: nearest(%s) at distance %s, brute force %d" % (NAMES[si], q, dd, min(l1(x, q) for x in present))
                if secs[0].split(":")[0] != mlin.split(":")[0] or secs[1].split(":")[0] != mlin.split(":")[0] or secs[2] != mlin or secs[3] != msq: differs = differs or (j, out, mout)
            elif w[0] in ("K", "RAD"):
                q = (int(w[-2]), int(w[-1])); arg = int(w[1])
                ds = sorted(l1(x, q) for x in present)
                exp = ds[:arg] if w[0] == "K" else [x for x in ds if x <= arg]
                for si, sc in enumerate(secs):
                    ws = sc.split()
                    got = [int(float(x.split(":")[0])) for x in ws[1:]]
                    els = pts_of(ws[1:])
                    if got != exp: bad = bad or "%s: %s(%s, %d) distances %s, brute force %s" % (NAMES[si], w[0], q, arg, got[:10], exp[:10])
                    cnt = collections.Counter(els); pc = collections.Counter(present)
                    if any(cnt[x] > pc[x] for x in cnt): bad = bad or "%s: %s returned an element not held (or the same element twice): %s" % (NAMES[si], w[0], [x for x in cnt if cnt[x] > pc[x]][:3])
                    if any(l1(x, q) != dd for x, dd in zip(els, got)): bad = bad or "%s: reported distance does not match the element" % NAMES[si]
                if [int(float(x.split(":")[0])) for x in secs[0].split()[1:]] != list(map(int, mout.split()[1:])): differs = differs or (j, out, mout)
            elif w[0] == "DUMP":
                for si in (0, 1):
                    m = re.search(r"<<<(.*)>>>", secs[si])
                    tok, removed = parse_dump(m.group(1)) if m else (None, [])
                    if tok: trees.append((hi, j, si, tok, removed, list(present))); dumped[si] = (tok, removed)
                    elif present: bad = bad or "%s: empty dump with %d elements held" % (NAMES[si], len(present))
            if w[0] in ("N", "K", "RAD") and dumped and len(secs) == 4:
                for si, (tok, removed) in dumped.items():
                    sc = secs[si]
                    if w[0] == "N":
                        if sc == "EXC": continue
                        kind, arg, got = "K", 1, [int(float(sc.split(":")[0]))]
                    else:
                        kind, arg = ("K" if w[0] == "K" else "R"), int(w[1])
                        got = [int(float(x.split(":")[0])) for x in sc.split()[1:]]
                    if kind == "K" and arg == 0: continue
                    gq.append((hi, j, si, got, "GQ %s %d %s %s %d %d %s %s" % (kind, arg, w[-2], w[-1], (hi * 31 + j) % 1000, len(removed), " ".join(x.replace(",", " ") for x in removed), tok)))
        if bad:
            npred += 1
            if first_pred is None or len(h) < len(first_pred[0]): first_pred = (h, bad)
        if differs:
            ndiff += 1
            if first_diff is None or len(h) < len(first_diff[0]): first_diff = (h, differs)
    # ---- the real GNAT trees satisfy the invariant whose meaning is proved (hypothesis of the pruning theorems)
    if trees:
        rc3, o3, e3, s3 = vf.sh([model, "nn"], input="\n".join("TREE " + t[3] for t in trees) + "\n", timeout=3000)
        c.step("correspond:tree-invariant", model + " nn (TREE lines parsed from operator<<)", s3, rc3 == 0)
        res = o3.split("\n")
        for (hi, j, si, tok, removed, present), r in zip(trees, res):
            w = r.split()
            if not w or w[0] != "inv_ok":
                npred += 1
                if first_pred is None or len(hs[hi]) < len(first_pred[0]): first_pred = (hs[hi], "%s: tree after op %d violates the pruning invariant (range / radius tables not conservative): %s" % (NAMES[si], j, r[:80]))
                continue
            els = collections.Counter(w[1:]); els.subtract(collections.Counter(removed))
            held = collections.Counter("%d,%d" % x for x in present)
            if +els != held:
                npred += 1
                if first_pred is None or len(hs[hi]) < len(first_pred[0]): first_pred = (hs[hi], "%s: tree elements minus the removal cache differ from the elements held after op %d" % (NAMES[si], j))
    # ---- the GNAT search model (whose exactness on invariant-satisfying trees is proved) run on the dumped trees gives
    #      the distances the implementation answered on the live structure
    nq_diff = 0
    if gq:
        rc4, o4, e4, s4 = vf.sh([model, "nn"], input="\n".join(g[4] for g in gq) + "\n", timeout=3000)
        c.step("correspond:gnat-search-model", model + " nn (GQ lines: GnatModel.gnat_nearestK / gnat_nearestR on parsed dumps)", s4, rc4 == 0)
        res = o4.split("\n")
        for (hi, j, si, got, line), r in zip(gq, res + [""] * len(gq)):
            w = r.split()
            mod = list(map(int, w[1:-1])) if w and w[0].lstrip("-").isdigit() and w[-1] in ("piv", "nopiv") else None
            if mod != got:
                nq_diff += 1; ndiff += 1
                if first_diff is None or len(hs[hi]) < len(first_diff[0]): first_diff = (hs[hi], (j, "%s answered distances %s" % (NAMES[si], got[:10]), "search model on the dumped tree: %s" % r[:120]))
    c.cov.update({"gnat_search_model_queries": len(gq), "gnat_search_model_disagreements": nq_diff})
    # ---- the whole structure: GnatFullModel (add / updateRange / updateRadius / split with k-centres / rebuild / removal cache)
    #      driven through the same operations, the first k-centre of every split taken from the same tape (RNG hook):
    #      node by node equal to the library's dump after every operation, for both GNAT variants
    sh = [gen_struct_history(c.rng, i) for i in range(60 if quick else 1500)]
    sflat = [l for h in sh for l in h]
    rc5, o5, e5, s5 = vf.sh([drv], input="\n".join(sflat) + "\n", timeout=3000); c.step("correspond:impl-structure", drv + " (NEWT histories)", s5, rc5 == 0)
    rc6, o6, e6, s6 = vf.sh([model, "gnatfull"], input="\n".join(sflat) + "\n", timeout=3000); c.step("correspond:model-structure", model + " gnatfull", s6, rc6 == 0)
    io5, mo5 = o5.split("\n"), o6.split("\n")
    nstruct = nstruct_bad = 0; k = 0
    for h in sh:
        last_model = None; bad = None
        for j, ln in enumerate(h):
            a = io5[k] if k < len(io5) else ""; b = mo5[k] if k < len(mo5) else ""; k += 1
            w = ln.split()
            if w[0] in ("A", "AL", "R", "C"):
                last_model = b
                if w[0] == "R":
                    secs = [x.strip() for x in a.split(" # ")]
                    if len(secs) == 4 and (secs[0] != b.split(" | ")[0] or secs[1] != b.split(" | ")[0]): bad = bad or (j, "remove answered %s / %s, model %s" % (secs[0], secs[1], b.split(" | ")[0]))
            elif w[0] == "DUMP" and last_model is not None:
                secs = [x.strip() for x in a.split(" # ")]
                try: mbody, mrest = last_model.split(" | ", 1)[1].split(" R ", 1); mrem, msz = mrest.split(" SZ ")
                except Exception: bad = bad or (j, "model produced no structure: " + last_model[:80]); continue
                mrem = sorted(" ".join(x) for x in zip(mrem.split()[0::2], mrem.split()[1::2]))
                for si in (0, 1):
                    mm = re.search(r"<<<(.*)>>>", secs[si]) if len(secs) == 4 else None
                    body, rem = canon_full(mm.group(1)) if mm else ("empty", [])
                    nstruct += 1
                    if body != mbody.strip() or rem != mrem:
                        bad = bad or (j, "%s structure after '%s': %s | removed %s ; model: %s | removed %s" % (NAMES[si], h[j - 1], body[:200], rem, mbody.strip()[:200], mrem))
        if bad:
            nstruct_bad += 1; ndiff += 1
            if first_diff is None or len(h) < len(first_diff[0]): first_diff = (h, (bad[0], bad[1][:400], "GnatFullModel"))
    c.cov.update({"gnat_structures_compared": nstruct, "gnat_structure_disagreements": nstruct_bad})
    c.cov.update({"evaluations": len(flat), "traces_validated_against_impl": len(hs), "distinct_nontrivial": len(distinct), "trees_checked": len(trees),
                  "rule": "random histories (<=170 ops) of add / add(vector) / remove(present or absent) / clear / nearest / nearestK (k in {0,1,2,3,5,8,1000}) / nearestR (r in {0,1,2,4,10,1e5}) / list / size / dump over 9 tree parameterisations (incl. leaf size < degree, tiny removal caches, rebalancing) and 4 point distributions (7x7 lattice with heavy ties, 6 duplicate sites, far clusters, a line); non-trivial = distinct history with >= 2 removals and > 10 ops",
                  "op_histogram": dict(hist), "disagreements": ndiff, "predicate_failures": npred})
    c.cov["samples"] = [" ; ".join(hs[0][:14]), " ; ".join(hs[-1][:14])]
    c.cov["trusted_base"] += ["extraction (ExtrOcamlBasic) + extract/nn_driver.ml; harness/nn_driver.cpp; the parser of NearestNeighborsGNAT's operator<< output in checks/C10.py",
                             "GnatModel.v is a hand transcription of Node::nearestK/nearestR and nearestKInternal/nearestRInternal; it is proved exact on every invariant-satisfying tree for all removal caches, offset sequences and queue orders, and tied to the code by (a) the invariant checked on dumps of the real trees, (b) the model's answers on those dumps = the implementation's answers; GNAT add/split/remove/rebuild are covered by (a) only"]
    c.assumptions += ["distance function is a metric (L1 on Z^2 in the correspondence; hypotheses d_sym/d_tri in the theorems)", "integer-valued distances (exact in binary64)"]
    def wellformed(h): return h and h[0].startswith("NEW")
    if first_pred:
        h, bad = first_pred
        def fails(cand):
            if not wellformed(cand): return False
            sub = vf.sh([os.path.join(vf.VERIF, "bin", "check"), "C10", "--replay", "/dev/stdin"], timeout=5)  # placeholder never used
            return False
        c.violation("implementation violates C10: " + bad, "# C10 replay: bin/check C10 --replay <this file>\n" + "\n".join(h) + "\n")
    elif first_diff:
        h, (j, a, b) = first_diff
        open(os.path.join(c.outdir, "disagreement_history.txt"), "w").write("\n".join(h) + "\n")
        c.broken.append("correspondence C10 (nearest-neighbour answers vs NNModel / structure vs GnatFullModel) differs at op %d '%s': implementation '%s' model '%s' (history: %s)" % (j, h[j], a[:200], b[:200], os.path.join(c.outdir, "disagreement_history.txt")))
    c.finish()


main()
