"""C06 — state-space distances obey the metric laws each space claims.
prove:      coq/Properties_C06.v (metric laws, compound = weighted sum, distance <= extent, for R^n / SO(2) / time /
            discrete and every nested weighted compound of them, over R)
correspond: distance / equalStates / getMaximumExtent of generated spaces of /repo vs the SAME Gallina definitions on
            binary64 (vm_compute), bit for bit, on adversarial pairs (seam, coincident, 1-ulp apart, edges)
search:     the laws themselves on the implementation, for every shipped space incl. SO(3), SE(2), SE(3), torus,
            sphere, Moebius, Klein bottle, Dubins, Reeds-Shepp (random search with the library's own tolerances)
"""
import os, collections
import vf
from spaces_common import *

KNOWN = {("MOBIUS", "triangle"): "C06-mobius-triangle", ("KLEIN", "triangle"): "C06-klein-triangle",
         ("MOBIUS", "triangle-gross"): "C06-mobius-triangle", ("KLEIN", "triangle-gross"): "C06-klein-triangle",
         ("SO3", "triangle"): "C06-so3-distance-cutoff", ("SO3", "dist-positive-if-not-equal"): "C06-so3-distance-cutoff",
         ("SE3", "triangle"): "C06-so3-distance-cutoff", ("SE3", "dist-positive-if-not-equal"): "C06-so3-distance-cutoff",
         ("MIX", "triangle"): "C06-so3-distance-cutoff", ("MIX", "dist-positive-if-not-equal"): "C06-so3-distance-cutoff",
         ("DUBINS", "dist-le-extent"): "C06-dubins-extent", ("DUBINSSYM", "dist-le-extent"): "C06-dubins-extent"}
C06_LAWS = ["dist-nonneg", "dist-self-zero", "dist-positive-if-not-equal", "dist-symmetric", "dist-le-extent", "triangle", "triangle-gross"]


def main():
    c = vf.Check("C06", "proof")
    quick = c.tier == "quick"
    c.prove("Properties_C06.v")
    if not quick: c.coqchk("Properties_C06")
    try:
        c.build_ompl(); drv = c.build_driver("space_driver", link_ompl=True)
    except vf.BuildError as ex:
        c.broken.append("correspondence C06: implementation driver does not build: " + str(ex)[-400:]); c.finish()
    rng = c.rng
    R = Runner(c, drv)
    for i in range(100 if quick else 2500):
        sp = gen_space(rng, rng.randint(0, 3), unbounded=True)
        ops = [("EXT", "OExt")]
        for j in range(12):
            mode = ["in", "seam", "in", "seam"][j % 4]
            a = gen_vals(rng, sp, mode)
            r = j % 6
            if r == 0: b = list(a)
            elif r == 1: b = perturb(rng, sp, a)
            else: b = gen_vals(rng, sp, rng.choice(["in", "seam"]))
            ops.append(("DIST %s | %s" % (vals_hex(a), vals_hex(b)), "ODist %s %s" % (sp.state_coq(a), sp.state_coq(b))))
            ops.append(("EQ %s | %s" % (vals_hex(a), vals_hex(b)), "OEq %s %s" % (sp.state_coq(a), sp.state_coq(b))))
        R.add(sp, ops)
    impl, model = R.run("c06")
    ndiff = 0; first_diff = None; nev = 0
    distinct = set()
    gen_pred = None     # the extent law on the generated spaces, evaluated on the implementation's own numbers
    import struct as _st
    def _val(bitpat): return _st.unpack("<d", _st.pack("<Q", bitpat))[0]
    for (sp, ops), io, mo in zip(R.groups, impl, model):
        if sp.kind == "CO": distinct.add(sp.spec())
        ext = None
        for (il, ct), a, m in zip(ops, io, mo):
            nev += 1
            w = a.split()
            try:
                if w[:1] == ["ext"]:
                    ext = _val(impl_bits(a)[0][0])
                    if not (ext >= 0.0) and gen_pred is None: gen_pred = (sp.spec(), il, "getMaximumExtent() = %r is not a non-negative number" % ext)
                elif w[:1] == ["dist"] and ext is not None and not sp.has("TU"):     # unbounded time: see the known finding below
                    dv = _val(impl_bits(a)[0][0])
                    if not (dv <= ext) and gen_pred is None: gen_pred = (sp.spec(), il, "distance %r between two states within the bounds exceeds getMaximumExtent() = %r" % (dv, ext))
            except Exception: pass
            if w[:1] == ["eq"]: ok = (len(w) == 2 and float(w[1]) == m[0])
            else: ok = same_bits(impl_bits(a)[0], m)
            if not ok:
                ndiff += 1
                if first_diff is None or len(il) < len(first_diff[1]): first_diff = (sp.spec(), il, a, m)
    # ---- the laws on the implementation (all shipped spaces)
    npred = 0; first_pred = None
    if gen_pred:
        npred += 1; first_pred = ("SPACE " + gen_pred[0] + "\nEXT\n" + gen_pred[1], gen_pred[2] + " on 'SPACE %s'" % gen_pred[0])
    names = ["RV3", "SO2", "SO3", "SE2", "SE3", "TIME", "DISC", "TORUS", "SPHERE", "SPHERE1", "MOBIUS", "KLEIN", "DUBINS", "DUBINSSYM", "RS", "MIX"]
    n = 20000 if quick else 400000
    rc, o, e, s = vf.sh([drv], input="\n".join("LAWS %s %d %d" % (nm, n, c.seed) for nm in names) + "\n", timeout=3000)
    c.step("impl:laws", drv + " LAWS <space> %d" % n, s, rc == 0)
    lawsum = {}
    for line in o.split("\n"):
        if not line.startswith("laws "): continue
        parts = line.split(" ; ")
        nm = parts[0].split()[1]
        for p in parts[1:]:
            w = p.split(None, 2)
            law, cnt = w[0], int(w[1]); wit = w[2] if len(w) > 2 else "-"
            if law not in C06_LAWS: continue
            lawsum["%s:%s" % (nm, law)] = cnt
            if cnt:
                what = "%s: law '%s' fails (%d of %d random cases), e.g. %s" % (nm, law, cnt, n, wit)
                slug = KNOWN.get((nm, law))
                if slug and c.known_finding(slug, what): continue
                npred += 1
                if first_pred is None: first_pred = ("LAWS %s %d %d" % (nm, n, c.seed), what)
    if len(lawsum) < len(names) * len(C06_LAWS): c.broken.append("law search produced %d of %d results (driver crashed?)" % (len(lawsum), len(names) * len(C06_LAWS)))
    # compound extent vs tiny weights (once a finding, repaired in /repo): the probe stays as a regression test
    kf = "SPACE CO 1 0x1p-60 RV 1 0x0p+0 0x1p+0\nEXT\nDIST 0x0p+0 | 0x1p+0\n"
    r3 = vf.sh([drv], input=kf, timeout=60)
    ol = r3[1].split("\n")
    try:
        e_c = _val(impl_bits(ol[1])[0][0]); d_c = _val(impl_bits(ol[2])[0][0])
        if not (d_c <= e_c):
            c.violation("implementation violates C06: CompoundStateSpace::getMaximumExtent = %r is below the distance %r of two in-bounds states (component of weight 2^-60 on [0,1] left out of the extent while distance() adds it)" % (e_c, d_c), "# C06 replay\n" + kf)
    except Exception:
        c.broken.append("C06 probe of the compound extent produced no output")
    # unbounded time: every state is within the (absent) bounds, the reported extent is the nominal 1
    kf2 = "SPACE TU\nEXT\nDIST 0x0p+0 | 0x1.8p+2\n"
    r4 = vf.sh([drv], input=kf2, timeout=60)
    ol = r4[1].split("\n")
    try:
        e_tu = _val(impl_bits(ol[1])[0][0]); d_tu = _val(impl_bits(ol[2])[0][0])
        if not (d_tu <= e_tu):
            what = "TimeStateSpace without bounds reports getMaximumExtent() = %r while distance(0, 6) = %r (and any compound containing it inherits the finite extent)" % (e_tu, d_tu)
            if not c.known_finding("C06-unbounded-time-extent", what):
                c.violation("implementation violates C06: " + what, "# C06 replay\n" + kf2)
    except Exception:
        c.broken.append("C06 probe of the unbounded time space produced no output")
    c.cov.update({"evaluations": nev + n * len(names), "traces_validated_against_impl": len(R.groups), "distinct_nontrivial": len(distinct),
                  "rule": "generated spaces (nesting depth <= 3 over R^n with degenerate/huge/tiny bounds, SO2, bounded/unbounded time, discrete; weights incl. 0 and 1e-3) x 12 adversarial pairs each (in bounds, seam values +-pi and 1 ulp inside, edges, coincident, 1-ulp apart), compared bit for bit; plus %d random cases of every law on each of 16 shipped spaces; non-trivial = distinct compound space" % n,
                  "disagreements": ndiff, "predicate_failures": npred, "law_failures": {k: v for k, v in lawsum.items() if v}})
    c.cov["samples"] = [R.groups[0][0].spec(), R.groups[0][1][1][0][:160]]
    c.cov["trusted_base"] += ["vm_compute on primitive binary64 floats (+ exact fmod/floor through SpecFloat), float printing/parsing, harness/space_driver.cpp + space_laws.h, g++ -ffp-contract=off",
                             "stdlib real-number axioms (theorems over R): sig_forall_dec, sig_not_dec, functional_extensionality_dep"]
    c.assumptions += ["the R-vs-binary64 gap is rounding (not bounded); SO(3), SE(3), sphere, torus, Moebius, Klein, Dubins, Reeds-Shepp are NOT in the Coq model: their laws are searched on the implementation only"]
    if first_diff:
        c.log('first disagreement:', first_diff)
    if first_pred:
        c.violation("implementation violates C06: " + first_pred[1], "# C06 replay: feed to build/harness/space_driver\n" + first_pred[0] + "\n")
    elif first_diff:
        sp, il, a, m = first_diff
        c.broken.append("correspondence C06 (distance / equalStates / extent vs SpacesModel on binary64) differs on 'SPACE %s' / '%s': implementation '%s' model %s" % (sp[:200], il[:200], a, m))
    c.finish()


main()
