"""C14 — Dubins and Reeds-Shepp distances are the lengths of real, optimal curves.
prove:      coq/Properties_C14.v over R: the vehicle model's segments compose additively (the point at arc length s is the
            end of the prefix word, following the rest reaches the same end), every segment moves the position by at most
            its length, a word is never shorter than the straight line between its end poses, symmetrised distances are
            symmetric, the best candidate is a lower bound of all candidates and is attained
correspond: T-interval: for each generated pose pair the word /repo reports (types + segment lengths, Dubins and
            Reeds-Shepp) is fed to the R model and Coq's interval arithmetic certifies that the model's end pose is the
            target pose (1e-9) — one machine-checked certificate per case
search:     the C14 statement on the implementation: reported distance = length of the word = minimum of the harness's own
            six-word solver, >= straight line, symmetric variants symmetric, Reeds-Shepp <= Dubins in both directions,
            interpolation sampled densely follows arcs of the turning radius / straight lines, ends at the target, prefix
            distances scale with t
"""
import os, sys, math, struct, collections
from fractions import Fraction
import vf
TWO_PI = 2 * math.pi


def fl(h): return struct.unpack("<d", struct.pack("<Q", int(h, 16)))[0]
def mod2pi(x): return x - TWO_PI * math.floor(x / TWO_PI)


def six_words(d, a, b):
    """lengths (t, p, q) of the six canonical Dubins words in normalised coordinates (Shkel & Lumelsky); None = infeasible"""
    sa, sb, ca, cb, cab = math.sin(a), math.sin(b), math.cos(a), math.cos(b), math.cos(a - b)
    out = {}
    tmp = 2 + d * d - 2 * cab + 2 * d * (sa - sb)
    if tmp >= 0:
        th = math.atan2(cb - ca, d + sa - sb); out["LSL"] = (mod2pi(-a + th), math.sqrt(tmp), mod2pi(b - th))
    tmp = 2 + d * d - 2 * cab + 2 * d * (sb - sa)
    if tmp >= 0:
        th = math.atan2(ca - cb, d - sa + sb); out["RSR"] = (mod2pi(a - th), math.sqrt(tmp), mod2pi(-b + th))
    tmp = -2 + d * d + 2 * cab + 2 * d * (sa + sb)
    if tmp >= 0:
        p = math.sqrt(tmp); th = math.atan2(-ca - cb, d + sa + sb) - math.atan2(-2, p); out["LSR"] = (mod2pi(-a + th), p, mod2pi(-b + th))
    tmp = d * d - 2 + 2 * cab - 2 * d * (sa + sb)
    if tmp >= 0:
        p = math.sqrt(tmp); th = math.atan2(ca + cb, d - sa - sb) - math.atan2(2, p); out["RSL"] = (mod2pi(a - th), p, mod2pi(b - th))
    tmp = (6 - d * d + 2 * cab + 2 * d * (sa - sb)) / 8
    if abs(tmp) <= 1:
        p = TWO_PI - math.acos(tmp); th = math.atan2(ca - cb, d - sa + sb); t = mod2pi(a - th + p / 2); out["RLR"] = (t, p, mod2pi(a - b - t + p))
    tmp = (6 - d * d + 2 * cab + 2 * d * (sb - sa)) / 8
    if abs(tmp) <= 1:
        p = TWO_PI - math.acos(tmp); th = math.atan2(-ca + cb, d + sa - sb); t = mod2pi(-a + th + p / 2); out["LRL"] = (t, p, mod2pi(b - a - t + p))
    return out


def seg(k, v, p):
    x, y, th = p
    if k == "L": return (x + math.sin(th + v) - math.sin(th), y - math.cos(th + v) + math.cos(th), th + v)
    if k == "R": return (x - math.sin(th - v) + math.sin(th), y + math.cos(th - v) - math.cos(th), th - v)
    if k == "S": return (x + v * math.cos(th), y + v * math.sin(th), th)
    return p


def angdiff(a, b): return abs(math.remainder(a - b, TWO_PI))


def rs_csc_relaxed(rho, a, b, tol=1e-9):
    """The shortest CSC Reeds-Shepp word from a to b (the library's own formulas, timeflip / reflect included) when a segment
    whose length comes out as a rounding-size negative number (down to -tol) is accepted as zero; the library itself
    demands >= -10 * machine epsilon.  Returns (length, degenerate): degenerate = the first or third segment of that word
    is within tol of zero, i.e. the library's sign test on it is decided by rounding."""
    def m2(x):
        v = math.fmod(x, TWO_PI)
        return v + TWO_PI if v < -math.pi else (v - TWO_PI if v > math.pi else v)
    dx, dy = b[0] - a[0], b[1] - a[1]; cth, sth = math.cos(a[2]), math.sin(a[2])
    x0, y0, phi0 = (cth * dx + sth * dy) / rho, (-sth * dx + cth * dy) / rho, b[2] - a[2]
    best = None
    for (x, y, phi) in ((x0, y0, phi0), (-x0, y0, -phi0), (x0, -y0, -phi0), (-x0, -y0, phi0)):
        xx, yy = x - math.sin(phi), y - 1 + math.cos(phi)
        u, t = math.sqrt(xx * xx + yy * yy), math.atan2(yy, xx)
        v = m2(phi - t)
        if t >= -tol and v >= -tol and (best is None or abs(t) + abs(u) + abs(v) < best[0]): best = (abs(t) + abs(u) + abs(v), min(t, v) < tol)
        xx, yy = x + math.sin(phi), y - 1 - math.cos(phi); u1s = xx * xx + yy * yy
        if u1s >= 4:
            u = math.sqrt(u1s - 4); t = m2(math.atan2(yy, xx) + math.atan2(2, u)); v = m2(t - phi)
            if t >= -tol and v >= -tol and (best is None or abs(t) + abs(u) + abs(v) < best[0]): best = (abs(t) + abs(u) + abs(v), min(t, v) < tol)
    return (None, False) if best is None else (rho * best[0], best[1])


def rat(x):
    n, d = Fraction(x).numerator, Fraction(x).denominator
    return "(%d / %d)" % (n, d) if n >= 0 else "(- (%d / %d))" % (-n, d)


def main():
    c = vf.Check("C14", "proof")
    quick = c.tier == "quick"
    c.prove("Properties_C14.v")
    if not quick: c.coqchk("Properties_C14", admit=("Interval.Tactic",))
    try:
        c.build_ompl(); drv = c.build_driver("dubins_driver", link_ompl=True)
    except vf.BuildError as ex:
        c.broken.append("correspondence C14: implementation driver does not build: " + str(ex)[-400:]); c.finish()
    rng = c.rng
    N = 64
    cases = []
    for i in range(300 if quick else 6000):
        rho = rng.choice([1.0, 1.0, 0.08, 2.5, 10.0])
        a = (rng.uniform(-5, 5) * rho, rng.uniform(-5, 5) * rho, rng.uniform(-math.pi, math.pi))
        m = i % 8
        if m == 0: b = (a[0] + rng.uniform(-3.9, 3.9) * rho, a[1] + rng.uniform(-1, 1) * rho, rng.uniform(-math.pi, math.pi))     # closer than four radii: CCC words
        elif m == 1: b = (a[0], a[1], rng.uniform(-math.pi, math.pi))                                                                # same position, different heading
        elif m == 2: b = (a[0] + 6 * rho * math.cos(a[2]), a[1] + 6 * rho * math.sin(a[2]), a[2])                                     # collinear, same heading
        elif m == 3: b = (a[0] + rng.uniform(-8, 8) * rho, a[1] + rng.uniform(-8, 8) * rho, rng.choice([0.0, math.pi / 2, -math.pi / 2, math.pi - 1e-12, a[2]]))   # quadrant boundaries
        elif m == 4: b = (a[0] + 1e-7 * rho, a[1] - 1e-7 * rho, a[2] + rng.choice([0.0, 1e-7, 0.5]))                                  # nearly coincident
        else: b = (rng.uniform(-8, 8) * rho, rng.uniform(-8, 8) * rho, rng.uniform(-math.pi, math.pi))
        b = (b[0], b[1], math.remainder(b[2], TWO_PI));
        if b[2] >= math.pi: b = (b[0], b[1], -math.pi)
        cases.append((rho, a, b))
    lines = ["DUB %s %d %s | %s" % (float(rho).hex(), N, " ".join(float(x).hex() for x in a), " ".join(float(x).hex() for x in b)) for rho, a, b in cases]
    rc, o, e, s = vf.sh([drv], input="\n".join(lines) + "\n", timeout=900); c.step("impl:dubins", drv + " DUB ...", s, rc == 0)
    out = o.split("\n")
    npred = 0; first_pred = None; stats = collections.Counter(); certs = []
    def pred(l, msg, slug=None):
        nonlocal npred, first_pred
        if slug and c.known_finding(slug, msg + " ('%s')" % l[:200]): stats["known:" + slug] += 1; return
        npred += 1; stats["fail:" + msg[:40]] += 1
        if first_pred is None: first_pred = (l, msg)
    for k, (l, (rho, a, b)) in enumerate(zip(lines, cases)):
        if 4 * k + 3 >= len(out): pred(l, "no observation (driver crashed?)"); break
        w = out[4 * k].split()
        if w[:2] != ["dub", "word"]: pred(l, "no observation: " + out[4 * k][:80]); continue
        word = w[2]; t, p, q = [fl(x) for x in w[4:7]]
        dab, dba = fl(w[9]), fl(w[10]); sab, sba = fl(w[13]), fl(w[14])
        rst = w[18]; rsl = [fl(x) for x in w[20:25]]; rstot = fl(w[25]); rab, rba = fl(w[28]), fl(w[29])
        stats["cases"] += 1; stats["word_" + word] += 1
        dx, dy = (b[0] - a[0]) / rho, (b[1] - a[1]) / rho; d = math.hypot(dx, dy)
        scale = max(1.0, d)
        # the library treats poses closer than DUBINS_EPS = 1e-6 (in radii and radians) as coincident: within that tolerance the
        # curve is a straight stub and end pose / optimality are only meant up to 1e-6
        coincident = d < 2e-6 and angdiff(a[2], b[2]) < 2e-6
        stats["coincident" if coincident else "regular"] += 1
        # distance = radius * word length; >= straight line; optimal among the six words
        if abs(dab - rho * (t + p + q)) > 1e-9 * rho * scale: pred(l, "Dubins distance %r is not the length of the reported word %r" % (dab, rho * (t + p + q)))
        if dab < rho * d * (1 - 1e-12) - 1e-12: pred(l, "Dubins distance %r is below the straight-line distance %r" % (dab, rho * d))
        th = math.atan2(dy, dx) if d > 0 else 0.0
        cand = six_words(d, mod2pi(a[2] - th), mod2pi(b[2] - th))
        best = min(sum(v) for v in cand.values()) if cand else None
        if best is not None and not coincident and abs(dab / rho - best) > 2e-7 * scale:
            pred(l, "Dubins distance %r is not the shortest of the six canonical words (%r via %s)" % (dab / rho, best, min(cand, key=lambda z: sum(cand[z]))))
        # the reported word reaches the target (python replay of the vehicle model)
        end = (0.0, 0.0, a[2])
        for kk, v in zip(word, (t, p, q)): end = seg(kk, v, end)
        if math.hypot(end[0] - dx, end[1] - dy) > (3e-6 if coincident else 1e-7 * scale) or angdiff(end[2], b[2]) > (3e-6 if coincident else 1e-7): pred(l, "the reported Dubins word %s (%r, %r, %r) does not end at the target pose: ends %r from it" % (word, t, p, q, math.hypot(end[0] - dx, end[1] - dy)))
        rend = (0.0, 0.0, a[2])
        for kk, v in zip(rst, rsl): rend = seg(kk, v, rend)
        if math.hypot(rend[0] - dx, rend[1] - dy) > 1e-7 * scale or angdiff(rend[2], b[2]) > 1e-7: pred(l, "the reported Reeds-Shepp word %s does not end at the target pose: ends %r from it" % (rst, math.hypot(rend[0] - dx, rend[1] - dy)))
        if abs(rab - rho * sum(abs(v) for v in rsl)) > 1e-9 * rho * scale: pred(l, "Reeds-Shepp distance %r is not the length of its word %r" % (rab, rho * sum(abs(v) for v in rsl)))
        # symmetry and ordering
        if abs(sab - sba) > 1e-12 * scale * rho: pred(l, "symmetric Dubins distance is not symmetric: %r vs %r" % (sab, sba))
        if abs(sab - min(dab, dba)) > 1e-12 * scale * rho: pred(l, "symmetric Dubins distance %r is not min of both directions %r" % (sab, min(dab, dba)))
        if abs(rab - rba) > 1e-9 * scale * rho: pred(l, "Reeds-Shepp distance is not symmetric: %r vs %r" % (rab, rba))
        if not coincident and (rab > dab + 1e-7 * scale * rho or rab > dba + 1e-7 * scale * rho):
            # the known finding is exactly: a shorter C-S-C word exists whose first or third segment is zero up to rounding
            rel, degen = rs_csc_relaxed(rho, a, b)
            pred(l, "Reeds-Shepp distance %r exceeds the Dubins distance (%r, %r)" % (rab, dab, dba),
                 "C14-rs-sign-test-rejects-shortest-word" if rel is not None and degen and rel <= min(dab, dba) * (1 + 1e-7) else None)
        # dense sampling of interpolate
        for row, (nm, total, reversal_ok) in zip((1, 2, 3), (("Dubins", dab, False), ("symmetric Dubins", sab, True), ("Reeds-Shepp", rab, True))):
            rowtxt, _, preftxt = out[4 * k + row].partition("| pref")
            sw = rowtxt.split(";")
            prefs = [fl(x) for x in preftxt.split()]
            pts = []
            for blk in sw:
                hh = blk.replace("samp", "").split()
                hh = [x for x in hh if len(x) == 16]
                if len(hh) == 3: pts.append(tuple(fl(x) for x in hh))
            if len(pts) != N + 1: pred(l, "%s: %d samples observed" % (nm, len(pts))); continue
            if math.hypot(pts[0][0] - a[0], pts[0][1] - a[1]) > 1e-9 * rho * scale or math.hypot(pts[-1][0] - b[0], pts[-1][1] - b[1]) > 1e-9 * rho * scale or angdiff(pts[-1][2], b[2]) > 1e-9:
                pred(l, "%s interpolation does not start / end at the given poses" % nm)
            ds = total / N; bad = None
            for i in range(N):
                ch = math.hypot(pts[i + 1][0] - pts[i][0], pts[i + 1][1] - pts[i][1]); dth = angdiff(pts[i + 1][2], pts[i][2])
                if ch > ds * (1 + 1e-7) + 1e-9 * rho + (3e-6 * rho if coincident else 0.0): bad = "step %d: chord %r exceeds the arc length %r" % (i, ch, ds); break
                if dth > ds / rho * (1 + 1e-7) + 1e-9 + (3e-6 if coincident else 0.0): bad = "step %d: heading changes by %r, more than arc length / radius = %r" % (i, dth, ds / rho); break
            if bad: pred(l, "%s interpolation does not follow the vehicle model: %s" % (nm, bad))
            # a prefix of the reported curve is a feasible curve of length t * total to its end point, so the distance to that point
            # cannot exceed it; the property demands equality (a prefix of a shortest curve is shortest)
            for frac, dp, pidx in zip((N // 4 / N, N // 2 / N, (3 * N) // 4 / N), prefs, (N // 4, N // 2, (3 * N) // 4)):
                if coincident: break
                if dp > frac * total * (1 + 1e-7) + 1e-9 * rho:
                    rel, degen = rs_csc_relaxed(rho, a, pts[pidx]) if nm == "Reeds-Shepp" else (None, False)
                    pred(l, "%s: distance to the point at t = %g is %r, more than the prefix of the reported curve (%r)" % (nm, frac, dp, frac * total),
                         "C14-rs-sign-test-rejects-shortest-word" if rel is not None and degen and rel <= frac * total * (1 + 1e-7) + 1e-9 * rho else None); break
                if dp < frac * total * (1 - 1e-6) - 1e-9 * rho:
                    pred(l, "%s: the prefix of the reported shortest curve is not shortest: distance to the point at t = %g is %r < t * total = %r" % (nm, frac, dp, frac * total), "C14-prefix-not-shortest-" + nm.split()[0].lower()); break
        # certificate input
        if k % (3 if quick else 6) == 0 and not coincident: certs.append((k, rho, a, b, word, (t, p, q), rst, rsl, dx, dy))
    # ---- the Reeds-Shepp sign test against rounding (known finding), on one fixed pair: a point on the straight part of an L-S-L curve
    kf = "DUB 0x1p+0 4 -0x1.5dae6e7feadacp+0 -0x1.a195d5948e8c6p+0 0x1.41fa71afc7a3ep+1 | -0x1.50db007f93598p+1 -0x1.b5339a06c9f0dp+0 -0x1.34ac3f2058a08p+1"
    rk = vf.sh([drv], input=kf + "\n", timeout=60)
    try:
        wk = rk[1].split("\n")[0].split(); dk = min(fl(wk[9]), fl(wk[10])); rsk = fl(wk[28])
        if rsk > dk * (1 + 1e-7):
            what = "ReedsSheppStateSpace: distance %r exceeds the Dubins distance %r of the same pair: the shortest word (L 1.3562, S 0.0172) is rejected because its third segment comes out as -1.5e-14 < -10 * epsilon, and a four-arc word 1.8%% longer is reported (any point on the straight part of a C-S-C curve is such a pair)" % (rsk, dk)
            if not c.known_finding("C14-rs-sign-test-rejects-shortest-word", what):
                c.violation("implementation violates C14: " + what, "# C14 replay: feed to build/harness/dubins_driver\n" + kf + "\n")
    except Exception:
        c.broken.append("C14 probe of the Reeds-Shepp sign test produced no output")
    # ---- T-interval certificates: the R model run on the reported word ends at the target
    src = ["From Coq Require Import Reals List. From Interval Require Import Tactic. From OmplV Require Import DubinsModel. Import ListNotations. Local Open Scope R_scope.",
           "Ltac cert := cbn [run seg_apply px py pth]; interval with (i_prec 90)."]
    kmap = {"L": "SL", "R": "SR", "S": "SS"}
    for (k, rho, a, b, word, tpq, rst, rsl, dx, dy) in certs:
        for tag, types, lens in (("d", word, tpq), ("r", rst, rsl)):
            segs = [(kmap[t], v) for t, v in zip(types, lens) if t in kmap]
            wterm = "[" + "; ".join("(%s, %s)" % (kk, rat(v)) for kk, v in segs) + "]"
            end = (0.0, 0.0, a[2])
            for t, v in zip(types, lens): end = seg(t, v, end)
            turns = round((end[2] - b[2]) / TWO_PI)
            eps = "(1 / 100000000)"
            src.append("Goal Rabs (px (run %s (mkPose 0 0 %s)) - %s) <= %s. Proof. cert. Qed." % (wterm, rat(a[2]), rat(dx), eps))
            src.append("Goal Rabs (py (run %s (mkPose 0 0 %s)) - %s) <= %s. Proof. cert. Qed." % (wterm, rat(a[2]), rat(dy), eps))
            src.append("Goal Rabs (pth (run %s (mkPose 0 0 %s)) - %s - %d * (2 * PI)) <= %s. Proof. cert. Qed." % (wterm, rat(a[2]), rat(b[2]), turns, eps))
    ncert = 0; cert_fail = None
    shard = 60
    import concurrent.futures as cf
    def run_shard(idx):
        body = src[:2] + src[2 + idx * shard * 6: 2 + (idx + 1) * shard * 6]
        path = os.path.join(c.outdir, "certs_%d.v" % idx); open(path, "w").write("\n".join(body) + "\n")
        return idx, vf.sh("timeout 1700 coqc -Q %s OmplV %s" % (vf.COQ, path), timeout=1800)
    nsh = (len(certs) + shard - 1) // shard
    import time; t0 = time.time()
    with cf.ThreadPoolExecutor(12) as ex: res = list(ex.map(run_shard, range(nsh)))
    c.step("correspond:interval-certificates", "coqc certs_*.v (%d goals: model end pose of the reported words = target pose, by Coq interval arithmetic)" % (len(certs) * 6), time.time() - t0, all(r[1][0] == 0 for r in res))
    for idx, (rc2, o2, e2, s2) in res:
        if rc2 != 0 and cert_fail is None:
            import re
            m = re.search(r'line (\d+)', e2 or o2)
            goal_line = int(m.group(1)) if m else None
            body_index = (goal_line - 3) // 6 + idx * shard if goal_line else None
            case = certs[body_index] if body_index is not None and body_index < len(certs) else None
            cert_fail = (lines[case[0]] if case else "certs_%d.v" % idx, (e2 or o2)[-300:])
    ncert = len(certs) * 6 if cert_fail is None else 0
    c.cov.update({"evaluations": len(cases) * 3 * (N + 1), "traces_validated_against_impl": len(certs), "distinct_nontrivial": stats["cases"],
                  "rule": "%d pose pairs: turning radius {0.08, 1, 2.5, 10}; far apart, closer than four radii (CCC words), same position with different headings, collinear, headings at quadrant boundaries, nearly coincident (1e-7); per pair: Dubins word + lengths, Dubins / symmetric Dubins / Reeds-Shepp distances in both directions, Reeds-Shepp word, %d interpolation samples per space; every %s pair gets 6 interval certificates" % (len(cases), N + 1, "3rd" if quick else "6th"),
                  "disagreements": 0 if cert_fail is None else 1, "predicate_failures": npred, "certificates_checked": ncert, "histogram": dict(stats)})
    c.cov["samples"] = lines[:2]
    c.cov["trusted_base"] += ["coq-interval (interval tactic, floating-point interval arithmetic inside Coq, vm_compute), stdlib real-number axioms; harness/dubins_driver.cpp; the check's own six-word solver (python doubles)",
                             "the R model is tied to the code per case: the word and segment lengths /repo reports are certified to reach the target pose under the model (1e-8); optimality is compared with the check's solver, not proved"]
    c.assumptions += ["optimality of the classification tables and of the 48 Reeds-Shepp words is not proved; it is searched (six-word solver for Dubins, Reeds-Shepp <= Dubins both ways)",
                      "the theorems are about the vehicle model in units of the turning radius"]
    if first_pred:
        l, msg = first_pred
        c.violation("implementation violates C14: %s on '%s'" % (msg[:500], l[:300]), "# C14 replay: feed to build/harness/dubins_driver\n%s\n" % l)
    elif cert_fail:
        c.broken.append("correspondence C14 (interval certificate: the R model run on the reported word must end at the target pose) fails on '%s': %s" % cert_fail)
    c.finish()


main()
