"""C19 — concurrent use through the documented thread-safe surface is race-free.
prove:      coq/Properties_C19.v (interleaving theory: atomic counters exact under every schedule, plain ones refuted;
            operations behind one mutex equal a sequential order respecting program order) and the obligation
            `current_ok` about the configuration record that lib/thread_config.py REGENERATES from /repo's sources
            (atomic counters / flags, lock discipline of the solution set, seed generator, space registry, console,
            no shared query scratch in the thread-safe GNAT)
correspond: the translator is the tie: the record is re-extracted on every run and the obligation re-checked
search:     stress driver on the implementation (counts vs calls, concurrent vs sequential answers, registry, solution
            set, terminate from another thread, logging), the multi-threaded planners under the C01 admission rule, and in
            the thorough tier a ThreadSanitizer build of the library and the stress driver
"""
import os, sys, collections, subprocess, concurrent.futures as cf, time
import vf
sys.path.insert(0, os.path.join(vf.VERIF, "lib"))
import thread_config

MT_PLANNERS = ["pRRT", "pSBL", "CForest", "PRM", "AnytimePathShortening"]


def main():
    c = vf.Check("C19", "proof")
    quick = c.tier == "quick"
    c.prove("Properties_C19.v")
    if not quick: c.coqchk("Properties_C19")
    # ---- the translator: configuration record from the current sources, obligation current_ok
    cfg, notes = thread_config.extract()
    cfgv = os.path.join(c.outdir, "ThreadConfig.v")
    open(cfgv, "w").write(thread_config.to_coq(cfg))
    rc, o, e, s = vf.sh("cd %s && timeout 300 coqc -Q %s OmplV ThreadConfig.v" % (c.outdir, vf.COQ), timeout=400)
    c.step("prove:config", "lib/thread_config.py -> ThreadConfig.v; coqc (obligation current_ok)", s, rc == 0)
    config_broken = None
    if rc != 0:
        bad = [k for k, v in cfg.items() if not v]
        config_broken = "obligation current_ok (ThreadConfig.v regenerated from the sources) no longer checks: %s %s" % (", ".join(bad) or (e or o)[-200:], notes if notes else "")
    try:
        c.build_ompl(); drv = c.build_driver("thread_driver", link_ompl=True); pdrv = c.build_driver("planner_driver", link_ompl=True); model = c.build_model()
    except vf.BuildError as ex:
        c.broken.append("C19: implementation driver / model does not build: " + str(ex)[-400:]); c.finish()
    T = 8 if quick else 16
    k = 1 if quick else 6
    ops = []
    for r in range(k):
        ops += ["COUNT %d %d %d" % (T, 20000 * (1 if quick else 5), c.seed + r), "GNAT %d %d %d %d" % (T, 1500 if quick else 10000, 3000, c.seed + r), "RNGS %d %d %d" % (T, 200, c.seed + r),
                "SPACES %d %d" % (T, 200), "PDEF %d %d" % (T, 100), "PTC %d" % (40 if quick else 300), "LOG %d %d" % (T, 500)]
    npred = 0; first_pred = None; stats = collections.Counter()
    def pred(l, msg):
        nonlocal npred, first_pred
        npred += 1
        if first_pred is None: first_pred = (l, msg)
    rc, o, e, s = vf.sh([drv], input="\n".join(ops) + "\n", timeout=3000); c.step("impl:stress", drv, s, rc == 0)
    outs = [l for l in o.split("\n") if l]
    for l, out in zip(ops, outs):
        w = out.split(); stats[w[0]] += 1
        if len(w) < 2 or w[1] != "ok": pred(l, out)
    if len(outs) < len(ops): pred(ops[len(outs)], "stress driver crashed or hung (exit %s) %s" % (rc, e[-200:]))
    # ---- multi-threaded planners under the C01 admission rule
    A = set(l.strip() for l in open(os.path.join(vf.VERIF, "checks", "c01_classA.txt")) if l.strip() and not l.startswith("#"))
    rng = c.rng; jobs = []
    for p in MT_PLANNERS:
        for j in range(4 if quick else 40):
            jobs.append("RUN %s %s %s %d 0 0.01 0.05 %d %d %g" % (p, rng.choice(["R2", "SE2", "R3"]), rng.choice(["gap", "thin", "boxes3", "blocked", "circles5"]), rng.randint(0, 3), rng.randint(1, 10 ** 6), 20000, 0.5 if quick else 1.0))
    def run_job(j):
        try:
            r = subprocess.run([pdrv] + j.split(), capture_output=True, text=True, timeout=90); return j, r.returncode, r.stdout
        except subprocess.TimeoutExpired: return j, -999, ""
    t0 = time.time()
    with cf.ThreadPoolExecutor(4) as ex: results = list(ex.map(run_job, jobs))     # few at a time: each planner uses several threads itself
    c.step("impl:mt-planners", "%s RUN ... (%d runs of %s)" % (pdrv, len(jobs), ", ".join(MT_PLANNERS)), time.time() - t0, True)
    feed = []; fed = []
    for j, rc2, out in results:
        if "END" not in out: pred(j, "multi-threaded planner crashed or did not return (exit %s)" % rc2); continue
        if "SKIP" in out: continue
        pl = j.split()[1]
        feed.append("CLASS %s 1 1" % ("A" if pl in A else "B")); feed += [l for l in out.split("\n") if l and not l.startswith("RUNINFO")]; fed.append(j)
    rc3, o3, e3, s3 = vf.sh([model, "ledger"], input="\n".join(feed) + "\n", timeout=600); c.step("correspond:model-ledger", model + " ledger", s3, rc3 == 0)
    for j, v in zip(fed, o3.split("\n")):
        stats["ledger_" + v] += 1
        thr0 = float(j.split()[7]) == 0.0
        if v not in ("ok", "skip") and not (v == "goal" and thr0): pred(j, "report of a multi-threaded planner rejected by the admission rule: " + v)
    # ---- PRM's two-thread solve: the cost stored with a solution found at once (obligation prm_bestcost_before_thread; the
    #      schedule 'store before reset' of ThreadModel.brun): exact solutions marked as satisfying the threshold must carry a cost that does
    try:
        cdrv = c.build_driver("cost_driver", link_ompl=True)
        pj = ["CRUN %s R2 empty 0 length 1.3 %d 0.3 3" % ("PRMstar" if q_ % 2 else "PRM", c.seed * 100 + q_) for q_ in range(64 if quick else 256)]
        def run_cost(j):
            try:
                r = subprocess.run([cdrv] + j.split(), capture_output=True, text=True, timeout=90); return j, r.returncode, r.stdout
            except subprocess.TimeoutExpired: return j, -999, ""
        t0 = time.time()
        with cf.ThreadPoolExecutor(32) as ex: pres = list(ex.map(run_cost, pj))       # oversubscribed on purpose: the lost store needs the planning thread to be late
        c.step("impl:prm-two-thread-solve", "%s CRUN PRM / PRMstar R2 empty ... (%d runs x 3 solves, 32 at a time)" % (cdrv, len(pj)), time.time() - t0, True)
        for j, rcj, out in pres:
            for l in out.split("\n"):
                t = l.split()
                if t[:1] == ["SOL"] and len(t) > 10:
                    stats["prm_solutions"] += 1
                    if t[2] == "0" and t[5] == "1" and t[4] == "1" and t[10] == "0":
                        pred(j, "PRM's two-thread solve stored the cost %s (1e-9 units; infinite) with a solution it marks as satisfying the objective's threshold; the path costs %s: the solution thread's update of bestCost_ was overwritten by the planning thread" % (t[6], t[7])); break
    except vf.BuildError as ex:
        c.broken.append("C19: cost driver does not build: " + str(ex)[-300:])
    # ---- ThreadSanitizer (thorough): an instrumented library and stress driver
    tsan = None
    if not quick:
        bdir = os.path.join(vf.VERIF, "build", "ompl_tsan")
        cmd = ("test -f %s/build.ninja || cmake -G Ninja -S /repo -B %s -DCMAKE_BUILD_TYPE=Release -DCMAKE_CXX_FLAGS='-O1 -g -fsanitize=thread -DOMPL_VERIF' -DOMPL_BUILD_TESTS=OFF -DOMPL_BUILD_DEMOS=OFF "
               "-DOMPL_BUILD_PYBINDINGS=OFF -DOMPL_BUILD_PYTESTS=OFF -DOMPL_REGISTRATION=OFF -DOMPL_VERSIONED_INSTALL=OFF > %s/../cmake_tsan.log 2>&1; ninja -C %s ompl > %s/../ninja_tsan.log 2>&1") % (bdir, bdir, bdir, bdir, bdir)
        os.makedirs(bdir, exist_ok=True)
        rc4, o4, e4, s4 = vf.sh(cmd, timeout=3000); c.step("impl:tsan-build", "cmake + ninja (libompl with -fsanitize=thread)", s4, rc4 == 0)
        if rc4 == 0:
            tdrv = os.path.join(vf.VERIF, "build", "harness", "thread_driver_tsan")
            rc5, o5, e5, s5 = vf.sh("g++ -std=c++17 -O1 -g -fsanitize=thread -Wno-deprecated-declarations -DOMPL_VERIF -I/repo/src -I%s/src -I/usr/include/eigen3 -I%s/harness %s/harness/thread_driver.cpp -o %s -L%s/src/ompl -lompl -Wl,-rpath,%s/src/ompl -lpthread -lboost_serialization -lboost_filesystem -lboost_system"
                                     % (bdir, vf.VERIF, vf.VERIF, tdrv, bdir, bdir), timeout=900)
            c.step("impl:tsan-driver", "g++ -fsanitize=thread thread_driver.cpp", s5, rc5 == 0)
            if rc5 == 0:
                tops = ["COUNT 4 3000 1", "GNAT 4 300 1500 2", "RNGS 4 50 5", "SPACES 4 50", "PDEF 4 50", "PTC 10", "LOG 4 100"]
                rc6, o6, e6, s6 = vf.sh("TSAN_OPTIONS='halt_on_error=0 report_signal_unsafe=0' " + tdrv, input="\n".join(tops) + "\n", timeout=3000); c.step("impl:tsan-run", tdrv, s6, True)
                races = [l for l in e6.split("\n") if "ThreadSanitizer: data race" in l]
                tsan = {"reports": len(races)}
                if races:
                    # first report's top frames
                    idx = e6.index("ThreadSanitizer: data race"); pred("TSAN " + " ; ".join(tops), "ThreadSanitizer reports %d data race(s) in the thread-safe surface: %s" % (len(races), " | ".join(x.strip() for x in e6[idx:idx + 1500].split("\n")[1:8])))
    c.cov.update({"evaluations": len(ops) + len(jobs), "traces_validated_against_impl": len(ops), "distinct_nontrivial": len(ops) + len(fed),
                  "rule": "configuration re-extracted from 8 source locations on every run; stress: %d threads x {%d checkMotion calls each on 64 states, GNAT nearest / nearestK / nearestR on 3000 integer-lattice points, 200 generators, 200 x 3 state spaces, 100 solution paths, terminate() from another thread, 500 log messages}; %d runs of the multi-threaded planners (pRRT, pSBL with 2 threads, CForest with 2 instances, PRM's two-thread solve, AnytimePathShortening) adjudicated by the C01 rule; thorough: ThreadSanitizer build of libompl + stress driver" % (T, 20000 if quick else 100000, len(jobs)),
                  "disagreements": 0 if config_broken is None else 1, "predicate_failures": npred, "config": cfg, "config_notes": notes, "histogram": dict(stats), "tsan": tsan})
    c.cov["samples"] = ops[:2] + jobs[:1]
    c.cov["trusted_base"] += ["lib/thread_config.py (regular-expression translator over 9 source files; its output ThreadConfig.v is compiled against the theorems on every run)",
                             "harness/thread_driver.cpp; the C++11 memory model and std::mutex / std::atomic are taken as specified (an atomic RMW is one step, a locked section is one step)"]
    c.assumptions += ["partial: 'every interleaving of the worker threads of the multi-threaded planners' is not modelled; those planners are run repeatedly and adjudicated by the admission rule (and by ThreadSanitizer in the thorough tier)",
                      "the translator recognises the synchronisation idioms present in the unchanged tree; an equivalent but differently written idiom would break the obligation without breaking the property (then the stress search decides)"]
    if first_pred:
        l, msg = first_pred
        c.violation("implementation violates C19: %s on '%s'" % (msg[:600], l), "# C19 replay: feed to build/harness/thread_driver (or planner_driver for RUN lines)\n%s\n" % l)
    elif config_broken:
        c.broken.append("C19 translator obligation: " + config_broken)
    c.finish()


main()
