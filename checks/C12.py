"""C12 — weighted sampling (ompl::PDF) follows the current weights after any edits.
prove:      coq/Properties_C12.v (shape invariant + sample-in-bounds for EVERY arithmetic; sum tree and
            prefix-interval selection over R)
correspond: PDF<int> built from /repo vs the SAME Gallina definitions instantiated with primitive binary64 floats
            and evaluated by vm_compute (generated cases file): every row of the tree bit for bit after every
            operation, and every sample
search:     the property predicate evaluated on the implementation with exact rational arithmetic
"""
import os, re, struct, collections, math
from fractions import Fraction
import vf


def hexf(x):
    return float(x).hex()


def gen_history(rng, maxops, wclass, hist):
    """ops: ('A',id,w) ('U',id,w) ('R',id) ('C',) ('S',r)"""
    def weight():
        c = wclass
        if c == 0: return float(rng.randint(0, 8))                       # small integers, zeros
        if c == 1: return float(2 ** rng.randint(-4, 6))                # powers of two
        if c == 2: return rng.choice([1e16, 1.0, 1.5, 0.0, 3.0, 1e-16, 0.1, 0.7])   # huge ratios, non-representable sums
        if c == 3: return rng.random() * rng.choice([1.0, 1e3, 1e-3])   # arbitrary doubles (drift)
        return rng.choice([0.0, 0.0, 1.0, 2.0])                         # many zeros
    ops, live, nid = [], [], 0
    for _ in range(rng.randint(1, maxops)):
        r = rng.random()
        if r < 0.35 or not live:
            ops.append(("A", nid, weight())); live.append(nid); nid += 1
        elif r < 0.55:
            ops.append(("U", rng.choice(live), weight()))
        elif r < 0.75:
            i = rng.choice(live)
            # aim at the case splits of remove(): last, sibling of last, other
            if rng.random() < 0.5:
                i = rng.choice(live[-2:])
            ops.append(("R", i)); live.remove(i)
        elif r < 0.78:
            ops.append(("C",)); live = []
        else:
            rr = rng.choice([0.0, 1.0, rng.randint(0, 64) / 64.0, rng.random(), 1.0 - 2 ** -53, 2 ** -60])
            ops.append(("S", rr))
        hist[ops[-1][0]] += 1
    # always finish with samples at the endpoints and a sweep
    for rr in (0.0, 1.0, 0.5, 0.999999):
        ops.append(("S", rr)); hist["S"] += 1
    return ops


def impl_lines(h):
    out = ["N"]
    for o in h:
        if o[0] in "AU": out.append("%s %d %s" % (o[0], o[1], hexf(o[2])))
        elif o[0] == "R": out.append("R %d" % o[1])
        elif o[0] == "C": out.append("C")
        else: out.append("S %s" % hexf(o[1]))
    return out


def coq_float(x):
    if x != x: return "nan%float"
    if x in (float("inf"), float("-inf")): return ("infinity" if x > 0 else "neg_infinity")
    if x == 0.0 and math.copysign(1, x) < 0: return "(-0)%float"
    h = float(x).hex()
    return "(%s)%%float" % h


def coq_term(h):
    parts = []
    for o in h:
        if o[0] == "A": parts.append("fadd %d %s" % (o[1], coq_float(o[2])))
        elif o[0] == "U": parts.append("fupd %d %s" % (o[1], coq_float(o[2])))
        elif o[0] == "R": parts.append("frem %d" % o[1])
        elif o[0] == "C": parts.append("fclear")
        else: parts.append("FSample %s" % coq_float(o[1]))
    return "[" + "; ".join(parts) + "]"


TOK = re.compile(r"[\[\];()]|[^\s\[\];()]+")


def parse_coq_obs(text):
    """Parses the printed value of `list (list obs)` into python: list of histories, each a list of
    ('state', ids, rows) / ('sample', id|'OOB'|'EXC') / ('exc',)"""
    toks = TOK.findall(text)
    pos = 0
    def num(t):
        t = t.replace("%float", "").replace("%nat", "")
        if t == "infinity": return float("inf")
        if t == "neg_infinity": return float("-inf")
        return float(t)
    def parse():
        nonlocal pos
        t = toks[pos]
        if t == "[":
            pos += 1; items = []
            while toks[pos] != "]":
                if toks[pos] == ";": pos += 1; continue
                items.append(parse())
            pos += 1
            return items
        if t == "(":
            pos += 1; v = parse()
            # application inside parentheses: head + args
            args = []
            while toks[pos] != ")":
                args.append(parse())
            pos += 1
            return (v, args) if args else v
        pos += 1
        return t
    def parse_app():
        # sequence of atoms forming one constructor application at list-element level
        nonlocal pos
        head = parse(); args = []
        while pos < len(toks) and toks[pos] not in ("]", ";"):
            args.append(parse())
        return head, args
    # top level: "= [ [ ... ] ; [ ... ] ] : list (list obs)"
    while toks[pos] != "[": pos += 1
    pos += 1
    res = []
    while toks[pos] != "]":
        if toks[pos] == ";": pos += 1; continue
        assert toks[pos] == "["; pos += 1
        hobs = []
        while toks[pos] != "]":
            if toks[pos] == ";": pos += 1; continue
            head, args = parse_app()
            if head == "OState":
                ids = [int(x.replace('%nat', '')) for x in args[0]]
                rows = [[num(x) for x in row] for row in args[1]]
                hobs.append(("state", ids, rows))
            elif head == "OSample":
                a = args[0]
                if isinstance(a, tuple): hobs.append(("sample", int(a[1][0].replace('%nat', ''))))
                elif a == "SExc": hobs.append(("exc",))
                else: hobs.append(("sample", "OOB"))
            else:
                hobs.append(("exc",))
        pos += 1
        res.append(hobs)
    return res


def bits(x):
    return struct.unpack("<Q", struct.pack("<d", x))[0]


def parse_impl(lines):
    """Implementation observations for one history (after the '# new' line)."""
    obs = []
    for ln in lines:
        ln = ln.strip()
        if ln == "EXC": obs.append(("exc",)); continue
        if "|" in ln:
            head, _, rest = ln.partition("|")
            hw = head.split()
            ids = [int(x) for x in hw[1:]]
            rows = [[float.fromhex(x) for x in row.split()] for row in rest.split(";")] if rest.strip() else []
            obs.append(("state", ids, rows))
        elif ln == "":
            obs.append(("missing",))
        else:
            try: obs.append(("sample", int(ln)))
            except ValueError: obs.append(("garbage", ln))
    return obs


def same(a, b):
    if a[0] != b[0]: return False
    if a[0] == "state":
        return a[1] == b[1] and len(a[2]) == len(b[2]) and all(len(x) == len(y) and all(bits(u) == bits(v) for u, v in zip(x, y)) for x, y in zip(a[2], b[2]))
    return a == b


def predicate(h, obs):
    """C12 evaluated on the implementation's observations with exact rationals: contents (ids, weights, order:
    swap-with-last removal), and for every sample whose tree sums are exact the prefix-interval law."""
    ids, ws, last_rows = [], [], []
    for o, ob in zip(h, obs):
        if ob[0] in ("missing", "garbage"):
            return "no observation for %r (crash / out-of-bounds access?)" % (o,)
        if o[0] == "A":
            if o[2] < 0:
                if ob[0] != "exc": return "negative weight accepted"
                continue
            ids.append(o[1]); ws.append(o[2])
        elif o[0] == "U":
            ws[ids.index(o[1])] = o[2]
        elif o[0] == "R":
            i = ids.index(o[1]); ids[i] = ids[-1]; ws[i] = ws[-1]; ids.pop(); ws.pop()
        elif o[0] == "C":
            ids, ws = [], []
        if o[0] != "S":
            if ob[0] != "state": return "no state after %r" % (o,)
            last_rows = ob[2]
            if ob[1] != ids: return "elements %r after %r, expected %r (size / handles)" % (ob[1], o, ids)
            leaf = ob[2][0] if ob[2] else []
            if [bits(x) for x in leaf] != [bits(x) for x in ws]: return "per-element weights %r after %r, expected %r" % (leaf, o, ws)
            continue
        # sample
        r = o[1]
        if not ids or r < 0 or r > 1:
            if ob[0] != "exc": return "sample on empty structure / r outside [0,1] did not throw"
            continue
        if ob[0] != "sample" or not isinstance(ob[1], int): return "sample(%r) produced %r" % (r, ob)
        if ob[1] not in ids: return "sample(%r) returned %r which is not a current element" % (r, ob[1])
        fw = [Fraction(x) for x in ws]
        W = sum(fw)
        t = Fraction(r) * W
        if W > 0 and float(t) == t:
            i = ids.index(ob[1])
            lo, hi = sum(fw[:i]), sum(fw[:i + 1])
            ok = (i == 0) if t == 0 else (lo < t <= hi)
            if ok and 0 < r < 1 and fw[i] == 0: ok = False
            if not ok:
                # is the stored tree the exact chain of pairwise sums of the current weights?  If it is, the
                # implementation broke the law outright; if not, binary64 rounding in the incrementally
                # maintained sums (absorption / cancellation) is what moved the interval boundaries.
                rows = last_rows
                exact_tree = True
                for a, b in zip(rows, rows[1:]):
                    ps = [Fraction(a[k]) + (Fraction(a[k + 1]) if k + 1 < len(a) else 0) for k in range(0, len(a), 2)]
                    if [Fraction(x) for x in b] != ps: exact_tree = False
                msg = "sample(%r) returned element #%d with cumulative interval (%s,%s] but r*W = %s" % (r, i, float(lo), float(hi), float(t))
                # binary64 cannot round anything when every weight that ever appeared is a small dyadic number
                no_rounding = all(abs(o2[2]) < 2.0 ** 30 and (o2[2] * 1024.0).is_integer() for o2 in h if o2[0] in "AU")
                if exact_tree or no_rounding:
                    return msg
                return "DRIFT " + msg + " (stored sums differ from the exact sums of the current weights)"
    return None


def main():
    c = vf.Check("C12", "proof")
    quick = c.tier == "quick"
    c.prove("Properties_C12.v")
    if not quick:
        c.coqchk("Properties_C12")
    try:
        c.build_ompl()
        drv = c.build_driver("pdf_driver", link_ompl=True)
    except vf.BuildError as ex:
        c.broken.append("correspondence C12: implementation driver does not build: " + str(ex)[-400:])
        c.finish()
    hist = collections.Counter()
    hs = []
    corpus_dir = os.path.join(vf.VERIF, "corpus", "C12")
    files = [c.replay] if c.replay else (sorted(os.path.join(corpus_dir, f) for f in os.listdir(corpus_dir)) if os.path.isdir(corpus_dir) else [])
    for f in files:
        h = []
        for l in open(f):
            w = l.split()
            if not w or w[0].startswith("#") or w[0] == "N": continue
            if w[0] in "AU": h.append((w[0], int(w[1]), float.fromhex(w[2]) if "x" in w[2] else float(w[2])))
            elif w[0] == "R": h.append(("R", int(w[1])))
            elif w[0] == "C": h.append(("C",))
            elif w[0] == "S": h.append(("S", float.fromhex(w[1]) if "x" in w[1] else float(w[1])))
        hs.append(h)
    ncorpus = len(hs)
    if not c.replay:
        n = 500 if quick else 12000
        for i in range(n):
            hs.append(gen_history(c.rng, 70 if i % 4 else 14, i % 5, hist))
        # every removal index for every size (the sibling / last / other split), sizes 1..17 (33 thorough)
        for size in range(1, 18 if quick else 34):
            for idx in range(size):
                h = [("A", k, float(k + 1)) for k in range(size)] + [("R", idx), ("S", 0.5), ("S", 1.0)]
                hs.append(h)
    # implementation
    lines = []
    for h in hs: lines += impl_lines(h)
    rc, o, e, s = vf.sh([drv], input="\n".join(lines) + "\n", timeout=1800)
    c.step("correspond:impl", drv, s, rc == 0)
    def run_one(h):
        rc1, oo, ee, ss = vf.sh([drv], input="\n".join(impl_lines(h)) + "\n", timeout=60)
        seg = oo.split("\n")[1:1 + len(h)]
        seg += [""] * (len(h) - len(seg))
        return parse_impl(seg)
    out = o.split("\n")
    impl = []
    if rc == 0 and len([x for x in out if x.startswith("# new")]) == len(hs):
        k = 0
        for h in hs:
            while k < len(out) and not out[k].startswith("# new"): k += 1
            k += 1
            seg = out[k:k + len(h)]
            seg += [""] * (len(h) - len(seg))
            impl.append(parse_impl(seg)); k += len(h)
    else:
        # the driver died somewhere: run every history in its own process so that the crash is attributed correctly
        c.log("implementation driver exited with %d: re-running each history separately" % rc)
        impl = [run_one(h) for h in hs]
    # model: generated cases file evaluated by vm_compute (sharded)
    shard = 150
    model = []
    t0 = 0.0
    for a in range(0, len(hs), shard):
        part = hs[a:a + shard]
        src = "From Coq Require Import Floats List. From OmplV Require Import PdfModel PdfFloat. Import ListNotations.\n"
        src += "Local Open Scope float_scope.\nEval vm_compute in [\n" + ";\n".join("frun0 " + coq_term(h) for h in part) + "].\n"
        path = os.path.join(c.outdir, "cases_%d.v" % a)
        open(path, "w").write(src)
        rc2, o2, e2, s2 = vf.sh("timeout 900 coqc -Q %s OmplV %s" % (vf.COQ, path), timeout=1000)
        t0 += s2
        if rc2 != 0:
            c.broken.append("model evaluation (coqc cases) failed: " + (e2 or o2)[-300:]); break
        model += parse_coq_obs(o2)
    c.step("correspond:model", "coqc cases_*.v (Eval vm_compute on the PrimFloat instance)", t0, not c.broken)
    ndiff = npred = ndrift = 0
    first_diff = first_pred = drift_witness = None
    distinct = set()
    nobs = 0
    for h, io, mo in zip(hs, impl, model):
        nobs += len(h)
        if any(o[0] == "R" for o in h) and len(h) > 5:
            distinct.add(tuple(h))
        bad = predicate(h, io)
        if bad and bad.startswith("DRIFT"):
            ndrift += 1
            if drift_witness is None or len(h) < len(drift_witness[0]): drift_witness = (h, bad)
            bad = None
        if bad:
            npred += 1
            if first_pred is None or len(h) < len(first_pred[0]): first_pred = (h, bad)
        if len(io) != len(mo) or not all(same(x, y) for x, y in zip(io, mo)):
            ndiff += 1
            if first_diff is None or len(h) < len(first_diff[0]):
                j = next((j for j, (x, y) in enumerate(zip(io, mo)) if not same(x, y)), min(len(io), len(mo)))
                first_diff = (h, j, io[j] if j < len(io) else None, mo[j] if j < len(mo) else None)
    c.cov.update({"evaluations": nobs, "traces_validated_against_impl": len(model), "histories": len(hs), "distinct_nontrivial": len(distinct),
                  "rule": "random add/update/remove/clear/sample histories over 5 weight classes (small ints with zeros, powers of two, 1e16/1/1.5 ratios, arbitrary doubles, mostly zeros), removals aimed at last / sibling-of-last / other, samples at 0, 1, k/64, 1-2^-53, 2^-60; plus every removal index for every size; non-trivial = distinct history with a removal and > 5 ops",
                  "op_histogram": dict(hist), "corpus": ncorpus, "disagreements": ndiff, "predicate_failures": npred})
    c.cov["samples"] = [" ".join(impl_lines(hs[i])[1:])[:300] for i in (0, len(hs) // 2)]
    c.cov["trusted_base"] += ["vm_compute on Coq's primitive binary64 floats (PrimFloat.add/sub/mul/ltb appear as primitives under Print Assumptions)",
                             "decimal printing of floats by coqc (%.17g) parsed back by checks/C12.py; harness/pdf_driver.cpp (printTree with hexfloat); g++ -O1 -ffp-contract=off on x86-64 SSE2",
                             "real-number axioms of the Coq standard library: ClassicalDedekindReals.sig_forall_dec, FunctionalExtensionality.functional_extensionality_dep (theorems over R only)"]
    c.assumptions += ["the gap between R (theorems) and binary64 (execution) is IEEE rounding and is not bounded; the shape / in-bounds theorems hold for every arithmetic",
                      "histories stay inside the documented interface (live handles); new/delete not modelled"]

    def replay_text(h):
        return "# C12 replay: bin/check C12 --replay <this file>\n" + "\n".join(impl_lines(h)) + "\n"
    c.cov["rounding_drift_cases"] = ndrift
    if drift_witness:
        h, bad = drift_witness
        what = "PDF maintains its sums incrementally in binary64, so absorbed/cancelled weight shifts the sampling intervals: " + bad[6:]
        if not c.known_finding("C12-float-absorption", what):
            c.violation("implementation violates C12: " + what, replay_text(h))
    if first_pred:
        h, bad = first_pred
        def fails(cand):
            # keep histories well-formed: every U/R refers to an id added earlier and still live
            live = set()
            for o in cand:
                if o[0] == "A": live.add(o[1])
                elif o[0] in "UR":
                    if o[1] not in live: return False
                    if o[0] == "R": live.discard(o[1])
                elif o[0] == "C": live = set()
            rc, oo, ee, ss = vf.sh([drv], input="\n".join(impl_lines(cand)) + "\n", timeout=60)
            seg = oo.split("\n")[1:1 + len(cand)]
            seg += [""] * (len(cand) - len(seg))
            b = predicate(cand, parse_impl(seg))
            return b is not None and not b.startswith("DRIFT")
        small = vf.ddmin(list(h), fails) if fails(list(h)) else h
        rc, oo, ee, ss = vf.sh([drv], input="\n".join(impl_lines(small)) + "\n", timeout=60)
        seg = oo.split("\n")[1:1 + len(small)]; seg += [""] * (len(small) - len(seg))
        c.violation("implementation violates C12: " + (predicate(small, parse_impl(seg)) or bad), replay_text(small))
    elif first_diff:
        h, j, io, mo = first_diff
        # search: the structure diverged from the model; look for a sample value on which the property itself fails
        found = None
        for cut in range(min(j + 1, len(h)), len(h) + 1):
            base = [o for o in h[:cut] if o[0] != "S"]
            cand = base + [("S", k / 128.0) for k in range(0, 129)]
            bad = predicate(cand, run_one(cand))
            if bad and not bad.startswith("DRIFT"):
                # keep only the failing sample
                for k in range(0, 129):
                    c1 = base + [("S", k / 128.0)]
                    b1 = predicate(c1, run_one(c1))
                    if b1 and not b1.startswith("DRIFT"):
                        found = (c1, b1); break
                break
        if found:
            c.violation("implementation violates C12: " + found[1], replay_text(found[0]))
        else:
            c.broken.append("correspondence C12 (PDF tree rows / sample vs PdfModel on binary64) differs at op %d %r of history '%s': implementation %r model %r"
                            % (j, h[j] if j < len(h) else None, " ".join(impl_lines(h)[1:])[:400], io, mo))
    c.finish()


main()
