"""C05 — a motion is valid exactly when every resolution step is valid.
prove:      coq/Properties_C05.v
correspond: DiscreteMotionValidator / Dubins / Reeds-Shepp / 3D-Dubins validators and
            SpaceInformation::checkMotion(states,...) of /repo, with a harness-owned validity predicate,
            vs the extracted model: verdict, exact visit order, last-valid fraction (bit pattern), counters
search:     the C05 statement evaluated directly on the implementation's observations
"""
import os, struct, collections, math
import vf

SPACE_DIM = {0: 1, 1: 2, 2: 1, 3: 3, 4: 3, 5: 3, 6: 3, 7: 4, 8: 4}
SPACE_NAME = {0: "R1", 1: "R2", 2: "SO2", 3: "SE2", 4: "R2xSO2", 5: "Dubins", 6: "ReedsShepp", 7: "SO3", 8: "Owen"}


def rstate(rng, sp):
    ang = lambda: rng.choice([rng.uniform(-math.pi, math.pi), 3.0, -3.0, 0.0, 3.14159])
    pos = lambda: rng.choice([rng.uniform(-10, 10), rng.uniform(-1, 1), 0.0, 10.0, -10.0])
    if sp == 0: return [pos()]
    if sp == 1: return [pos(), pos()]
    if sp == 2: return [ang()]
    if sp in (3, 4, 5, 6): return [pos(), pos(), ang()]
    if sp == 7:
        q = [rng.gauss(0, 1) for _ in range(4)]
        return q
    return [pos(), pos(), pos(), ang()]


def gen_mask(rng, kind, n=260):
    if kind == 0: return "1" * n
    if kind == 1:
        j = rng.randint(1, 60); return "".join("0" if i == j else "1" for i in range(n))
    if kind == 2:
        p = rng.choice([0.02, 0.1, 0.5]); return "".join("0" if rng.random() < p else "1" for _ in range(n))
    j = rng.randint(1, 40); return "".join("1" if i < j else "0" for i in range(n))


def frac_bits(s):
    if s == "untouched": return s
    n, d = map(int, s.split("/"))
    if d == 0: return "nan-or-inf"
    return "%016x" % struct.unpack("<Q", struct.pack("<d", float(n) / float(d)))[0]


def predicate_M(case, out):
    """C05 statement on one implementation observation; returns None or the failure."""
    sp, res, factor, form, vend, mask, a, b = case
    try:
        parts = [x.strip() for x in out.split("|")]
        head, vis, tail = parts[:3]
        seg = parts[3].split()[1:] if len(parts) > 3 and parts[3].startswith("SEG") else None
        nd, verdict = map(int, head.split())
        tl = tail.split()
        fr, lvs, dv, di = tl[:4]
        dv, di = int(dv), int(di)
    except Exception:
        return "no observation (crash?)"
    if "nopath" in tl:
        # 3D Dubins: no curve exists between the poses, so there is nothing to subdivide; the motion must be rejected and counted
        if verdict != 0 or (dv, di) != (0, 1) or fr != "untouched":
            return "pose pair without a connecting curve: verdict %d counters %d/%d" % (verdict, dv, di)
        return None
    # the segment count itself: factor * ceil(distance / longest valid segment), the largest such count over the
    # components of a compound space (recomputed here from the distances and segment lengths the space reports)
    if seg:
        import math
        def fl(h): return struct.unpack("<d", struct.pack("<Q", int(h, 16)))[0]
        try:
            want = max(int(seg[k + 2]) * int(math.ceil(fl(seg[k]) / fl(seg[k + 1]))) for k in range(0, len(seg), 3))
        except (ValueError, OverflowError, ZeroDivisionError):
            want = None
        if want is not None and want != nd:
            return "validSegmentCount = %d but factor * ceil(distance / longest valid segment) = %d (for a compound space: the maximum over its components, each with its own factor)" % (nd, want)
    mask = mask + "1" * max(0, nd + 2 - len(mask))
    allv = all(mask[j] == "1" for j in range(1, nd)) and vend == 1
    if (verdict == 1) != allv:
        return "verdict %d but every subdivision point valid = %s (nd=%d)" % (verdict, allv, nd)
    if dv + di != 1 or (dv == 1) != (verdict == 1):
        return "counters advanced by valid=%d invalid=%d on one call with verdict %d" % (dv, di, verdict)
    if "X" in vis.split():
        return "a state was checked that is neither s2 nor a j/nd interpolation point"
    if form == 1:
        if verdict == 1:
            if fr != "untouched" or lvs != "untouched":
                return "last-valid storage written on success"
        else:
            if fr == "untouched":
                return "invalid motion but last-valid fraction not reported"
            f = struct.unpack("<d", struct.pack("<Q", int(fr, 16)))[0]
            if not (0.0 <= f < 1.0):
                return "last-valid fraction %r outside [0,1)" % f
            if lvs != "ok":
                return "last-valid state is not the interpolation at the reported fraction"
            if nd >= 1:
                ks = [k for k in range(0, nd) if float(k) / float(nd) == f]
                if not ks:
                    return "last-valid fraction %r is not a subdivision point k/%d" % (f, nd)
                k = ks[0]
                if not all(mask[j] == "1" for j in range(1, k + 1)):
                    return "a subdivision point before the reported last-valid one is invalid"
                nxt_valid = (mask[k + 1] == "1") if k + 1 < nd else (vend == 1)
                if nxt_valid:
                    return "the point after the reported last-valid one is valid"
    return None


def predicate_L(case, out):
    count, form, mask = case
    try:
        head, vis, tail = [x.strip() for x in out.split("|")]
        verdict = int(head)
    except Exception:
        return "no observation (crash?)"
    allv = all(mask[i] == "1" for i in range(count))
    if (verdict == 1) != allv:
        return "state-list verdict %d but all valid = %s" % (verdict, allv)
    if form == 1 and verdict == 0:
        k = int(tail)
        if mask[k] == "1" or not all(mask[i] == "1" for i in range(k)):
            return "firstInvalidStateIndex %d is not the first invalid state" % k
    return None


def main():
    c = vf.Check("C05", "proof")
    quick = c.tier == "quick"
    c.prove("Properties_C05.v")
    if not quick:
        c.coqchk("Properties_C05")
    try:
        c.build_ompl()
        drv = c.build_driver("motion_driver", link_ompl=True)
        model = c.build_model()
    except vf.BuildError as ex:
        c.broken.append("correspondence C05: implementation/driver/model does not build: " + str(ex)[-400:])
        c.finish()
    rng = c.rng
    cases = []   # ("M", case) / ("L", case)
    hist = collections.Counter()
    if c.replay:
        for l in open(c.replay):
            w = l.split()
            if not w or w[0].startswith("#"): continue
            if w[0] == "M":
                n = int(w[7]); vals = list(map(float, w[8:]))
                cases.append(("M", (int(w[1]), float(w[2]), int(w[3]), int(w[4]), int(w[5]), w[6], vals[:n], vals[n:])))
            else:
                cases.append(("L", (int(w[1]), int(w[2]), w[3])))
    else:
        nM = 6000 if quick else 150000
        for i in range(nM):
            sp = rng.choice([0, 0, 1, 2, 3, 4, 5, 5, 6, 6, 7, 8])
            res = rng.choice([0.5, 0.2, 0.05, 0.02, 0.01] if sp not in (5, 6, 8) else [0.5, 0.1, 0.03])
            factor = rng.choice([1, 1, 1, 2, 3])
            form = i % 2
            kind = rng.choice([0, 0, 1, 1, 2, 3])
            vend = 0 if rng.random() < 0.15 else 1
            a = rstate(rng, sp)
            r = rng.random()
            if r < 0.08: b = list(a)                                     # identical states: nd = 0
            elif r < 0.2: b = [x + rng.uniform(-1e-3, 1e-3) for x in a]  # adjacent
            else: b = rstate(rng, sp)
            if sp == 7 and r < 0.2:
                b = [x * (1 + 1e-7) if k else x + 1e-6 for k, x in enumerate(a)]
            cases.append(("M", (sp, res, factor, form, vend, gen_mask(rng, kind), a, b)))
        # exhaustive masks for small nd on R^1: distance chosen so that nd = n
        for n in range(0, 9 if quick else 13):
            for m in range(2 ** max(n - 1, 0)):
                mask = "1" + "".join("1" if (m >> j) & 1 else "0" for j in range(max(n - 1, 0))) + "1" * 8
                for form in (0, 1):
                    for vend in (0, 1):
                        cases.append(("M", (0, 0.05, 1, form, vend, mask, [0.0], [float(n) - (0.5 if n else 0.0)])))
        nL = 1500 if quick else 40000
        for i in range(nL):
            count = rng.randint(0, 40)
            cases.append(("L", (count, i % 2, gen_mask(rng, rng.choice([0, 0, 1, 2, 3]), 64))))
        for count in range(0, 9 if quick else 12):
            for m in range(2 ** count):
                mask = "".join("1" if (m >> j) & 1 else "0" for j in range(count)) + "1" * 8
                for form in (0, 1):
                    cases.append(("L", (count, form, mask)))

    def line_of(kind, case):
        if kind == "M":
            sp, res, factor, form, vend, mask, a, b = case
            return "M %d %r %d %d %d %s %d %s" % (sp, res, factor, form, vend, mask, len(a), " ".join(repr(x) for x in a + b))
        return "L %d %d %s" % case

    impl_in = "\n".join(line_of(k, cs) for k, cs in cases) + "\n"
    rc, o, e, s = vf.sh([drv], input=impl_in, timeout=3000)
    c.step("correspond:impl", drv, s, rc == 0)
    impl = o.split("\n")
    impl = impl[:len(cases)] + [""] * (len(cases) - len(impl))
    # model inputs need nd from the implementation
    mlines = []
    for (kind, cs), out in zip(cases, impl):
        if kind == "M":
            try: nd = int(out.split()[0])
            except Exception: nd = 0
            mlines.append("M %d %d %d %s" % (nd, cs[3], cs[4], cs[5]))
        else:
            mlines.append("L %d %d %s" % cs)
    rc2, o2, e2, s2 = vf.sh([model, "motion"], input="\n".join(mlines) + "\n", timeout=3000)
    c.step("correspond:model", model + " motion", s2, rc2 == 0)
    mod = o2.split("\n")
    ndiff = npred = 0
    first_diff = first_pred = None
    distinct = set()
    ndhist = collections.Counter()
    for (kind, cs), io, mo in zip(cases, impl, mod):
        if kind == "M":
            bad = predicate_M(cs, io)
            # canonical forms
            try:
                ih, iv, it = [x.strip() for x in io.split("|")][:3]
                nd = int(ih.split()[0]); ndhist[min(nd, 50) // 5 * 5] += 1
                hist[SPACE_NAME[cs[0]]] += 1
                fr, lvs, dv, di = it.split()[:4]
                icanon = "%s | %s | %s %s %s" % (ih.split()[1], iv, fr, dv, di)
                mh, mv, mt = [x.strip() for x in mo.split("|")]
                mfr, mdv, mdi = mt.split()
                mcanon = "%s | %s | %s %s %s" % (mh, mv, frac_bits(mfr), mdv, mdi)
                if "nopath" in it.split():
                    mcanon = icanon       # no curve: nothing to subdivide, decided by the predicate alone
                if nd >= 2 and "0" in cs[5][1:nd] and nd < 200:
                    distinct.add((nd, cs[3], cs[4], cs[5][1:nd]))
            except Exception:
                icanon, mcanon = io, "<unparsable> " + mo
        else:
            bad = predicate_L(cs, io)
            icanon, mcanon = io.strip(), mo.strip()
            hist["states-list"] += 1
            if cs[0] >= 3 and "0" in cs[2][:cs[0]]:
                distinct.add(("L",) + cs)
        if bad:
            npred += 1
            if first_pred is None: first_pred = (kind, cs, io, bad)
            elif len(line_of(kind, cs)) < len(line_of(first_pred[0], first_pred[1])): first_pred = (kind, cs, io, bad)
        if icanon != mcanon:
            ndiff += 1
            if first_diff is None or len(line_of(kind, cs)) < len(line_of(first_diff[0], first_diff[1])):
                first_diff = (kind, cs, icanon, mcanon)
    c.cov.update({"evaluations": len(cases), "traces_validated_against_impl": len(cases), "distinct_nontrivial": len(distinct),
                  "rule": "random state pairs (identical/adjacent/far, seam angles) x resolution x factor x validity masks (all valid, single invalid, random, prefix) x both forms on 9 spaces, every mask for small nd on R^1, state-list forms incl. every mask for small counts; non-trivial = distinct (nd, form, vend, mask) with nd>=2 and an invalid interior point",
                  "space_histogram": dict(hist), "nd_histogram": {str(k): v for k, v in sorted(ndhist.items())},
                  "disagreements": ndiff, "predicate_failures": npred})
    c.cov["samples"] = [line_of(k, cs)[:200] for k, cs in cases[:2]] + [line_of(*cases[-1])]
    c.cov["trusted_base"] += ["extraction (ExtrOcamlBasic) + extract/motion_driver.ml", "harness/motion_driver.cpp (identifies each queried state with its j/nd index by exact coordinates)", "nd (validSegmentCount) is taken from the implementation, as the property states"]
    c.assumptions += ["s1 is valid (the validators' documented precondition)", "interpolation itself is C07's subject; here the j/nd points are whatever interpolate returns"]
    if first_pred:
        kind, cs, io, bad = first_pred
        c.violation("implementation violates C05: %s" % bad, "# C05 replay: bin/check C05 --replay <this file>\n%s\n# observed: %s\n" % (line_of(kind, cs), io))
    elif first_diff:
        kind, cs, ic, mc = first_diff
        c.broken.append("correspondence C05 (motion check vs MotionModel) differs on '%s': implementation '%s' model '%s'" % (line_of(kind, cs)[:300], ic[:200], mc[:200]))
    if rc != 0 and not first_pred and not first_diff:
        c.broken.append("motion driver exited with %d: %s" % (rc, e[-300:]))
    c.finish()


main()
