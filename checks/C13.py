"""C13 — grid discretizations track cells, neighbours, borders and components exactly.
prove:      coq/Properties_C13.v
correspond: ompl::Grid / GridN / GridB of /repo vs the extracted model on generated histories: per-cell neighbour
            counters and border flags, heap sizes, tops, has/neighbors in probe order, components (canonicalised)
search:     the C13 statement evaluated on the implementation's observations by an independent python oracle
"""
import os, collections, itertools
import vf


def gen_history(rng, hist):
    dim = rng.choice([1, 2, 2, 3, 4])
    lim = rng.choice([0, 0, 1, 2, 2 * dim - 1 if dim > 1 else 1])
    hb = rng.random() < 0.4
    box = rng.choice([2, 3, 3])
    lo = [rng.choice([0, -1]) for _ in range(dim)]
    up = [l + box - 1 + rng.choice([0, 1]) for l in lo]
    head = "G %d %d %d" % (dim, lim, 1 if hb else 0)
    if hb: head += " " + " ".join(map(str, lo + up))
    lines = [head]
    present = {}
    nid = 0
    far = rng.random() < 0.15
    def rc():
        if far and rng.random() < 0.3: return tuple(rng.choice([-1000, 7, 123456]) for _ in range(dim))
        return tuple(rng.randint(lo[i], lo[i] + box - 1) for i in range(dim))
    for _ in range(rng.randint(1, 60)):
        r = rng.random()
        if r < 0.5 or not present:
            c = rc()
            if c in present: continue
            lines.append("A %d %d %s" % (nid, rng.randint(0, 9), " ".join(map(str, c)))); present[c] = nid; nid += 1; hist["A"] += 1
        elif r < 0.75:
            c = rng.choice(sorted(present)); del present[c]
            lines.append("R " + " ".join(map(str, c))); hist["R"] += 1
        elif r < 0.88:
            c = rng.choice(sorted(present))
            lines.append("U %d %s" % (rng.randint(0, 9), " ".join(map(str, c)))); hist["U"] += 1
        elif r < 0.97:
            lines.append("Q " + " ".join(map(str, rc()))); hist["Q"] += 1
        else:
            lines.append("C"); present = {}; hist["C"] += 1
    return lines


def parse_state(line):
    """-> (gridn cells, gridb cells, ci, ce, topI, topE, comps) ; cells: {id: (coord, nb, border, data)}"""
    pn, pb, pk = [x.strip() for x in line.split("|")]
    def cells(ws):
        d = {}
        for w in ws:
            i, c, nb, b, data = w.split(":")
            d[int(i)] = (tuple(map(int, c.split(","))), int(nb), int(b), int(data))
        return d
    wn = pn.split(); cn = cells(wn[1:])
    wb = pb.split(); cb = cells(wb[1:-4]); ci, ce, ti, te = wb[-4:]
    wk = pk.split(); comps = [tuple(map(int, w.strip("[]").split(","))) for w in wk[1:]]
    return cn, cb, int(ci), int(ce), ti, te, comps, int(wn[0][2:]), int(wb[0][2:])


def predicate(lines, outs):
    """C13 on an observation trace, against brute-force recomputation from the set of present cells."""
    dim = lim = 0; bounds = None; present = {}
    for ln, out in zip(lines, outs):
        w = ln.split()
        if w[0] == "G":
            dim, lim = int(w[1]), int(w[2]) or 2 * int(w[1]); present = {}
            bounds = (list(map(int, w[4:4 + dim])), list(map(int, w[4 + dim:4 + 2 * dim]))) if w[3] == "1" else None
            continue
        if not out or out.startswith("UB") or out.startswith("?"):
            return "no observation after '%s' (crash?)" % ln
        if w[0] == "A": present[tuple(map(int, w[3:]))] = (int(w[1]), int(w[2]))
        elif w[0] == "R": present.pop(tuple(map(int, w[1:])), None)
        elif w[0] == "U":
            c = tuple(map(int, w[2:])); present[c] = (present[c][0], int(w[1]))
        elif w[0] == "C": present = {}
        def nbset(c):
            res = []
            for i in range(dim - 1, -1, -1):
                for dlt in (-1, 1):
                    cc = list(c); cc[i] += dlt
                    if tuple(cc) in present: res.append(present[tuple(cc)][0])
            return res
        if w[0] == "Q":
            c = tuple(map(int, w[1:]))
            exp = "q %d | %s | %s" % (1 if c in present else 0, " ".join(map(str, nbset(c))), " ".join(map(str, nbset(c))))
            if " ".join(out.split()) != " ".join(exp.split()):
                return "lookup/neighbours of %s: got '%s', the present cells give '%s'" % (c, out, exp)
            continue
        try:
            cn, cb, ci, ce, ti, te, comps, sn, sb = parse_state(out)
        except Exception as ex:
            return "unparsable state after '%s'" % ln
        exp = {}
        for c, (i, d) in present.items():
            nb = len(nbset(c)) + (sum(1 for k in range(dim) if c[k] == bounds[0][k] or c[k] == bounds[1][k]) if bounds else 0)
            exp[i] = (c, nb, 1 if nb < lim else 0, d)
        for name, got, size in (("GridN", cn, sn), ("GridB", cb, sb)):
            if size != len(present) or got != exp:
                bad = [i for i in set(got) | set(exp) if got.get(i) != exp.get(i)][:3]
                return "%s after '%s': cells %s are %s, the present cells imply %s" % (name, ln, bad, [got.get(i) for i in bad], [exp.get(i) for i in bad])
        nint = sum(1 for v in exp.values() if v[2] == 0); next_ = len(exp) - nint
        if (ci, ce) != (nint, next_): return "GridB after '%s': %d internal / %d external heap entries, cells say %d / %d" % (ln, ci, ce, nint, next_)
        if exp:
            ints = [v[3] for v in exp.values() if v[2] == 0]; exts = [v[3] for v in exp.values() if v[2] == 1]
            eti = str(max(ints)) if ints else str(min(exts))       # internal heap ordered by greater, external by less
            ete = str(min(exts)) if exts else str(max(ints))
            if (ti, te) != (eti, ete): return "GridB after '%s': tops (%s,%s), best interior/border cells are (%s,%s)" % (ln, ti, te, eti, ete)
        # components: partition of the present cells into classes of the neighbour relation
        ids = sorted(v[0] for v in present.values())
        if sorted(i for comp in comps for i in comp) != ids: return "components after '%s' do not partition the cells" % ln
        byid = {v[0]: c for c, v in present.items()}
        label = {}
        for comp in comps:
            for i in comp: label[i] = comp
        for c, (i, d) in present.items():
            for j in nbset(c):
                if label[i] != label[j]: return "components after '%s': neighbouring cells %d and %d are in different components" % (ln, i, j)
        for comp in comps:   # connected
            seen = {comp[0]}; stack = [comp[0]]
            while stack:
                x = stack.pop()
                for j in nbset(byid[x]):
                    if j not in seen: seen.add(j); stack.append(j)
            if seen != set(comp): return "components after '%s': component %s is not connected" % (ln, comp)
        if [len(x) for x in comps] != sorted((len(x) for x in comps), reverse=True): return "components not sorted by size"
    return None


def main():
    c = vf.Check("C13", "proof")
    quick = c.tier == "quick"
    c.prove("Properties_C13.v")
    if not quick:
        c.coqchk("Properties_C13")
    try:
        drv = c.build_driver("grid_driver")
        model = c.build_model()
    except vf.BuildError as ex:
        c.broken.append("correspondence C13: implementation driver/model does not build: " + str(ex)[-400:])
        c.finish()
    hist = collections.Counter()
    hs = []
    if c.replay:
        hs.append([l.strip() for l in open(c.replay) if l.strip() and not l.startswith("#")])
    else:
        for i in range(1000 if quick else 40000):
            hs.append(gen_history(c.rng, hist))
        if not quick:
            # every add/remove sequence of <= 5 ops on a 3x3 grid region (2-D, default limit)
            cellsxy = [(x, y) for x in range(2) for y in range(3)]
            for L in range(1, 6):
                for combo in itertools.product(range(len(cellsxy)), repeat=L):
                    lines = ["G 2 0 0"]; present = {}; nid = 0
                    for k in combo:
                        cc = cellsxy[k]
                        if cc in present: lines.append("R %d %d" % cc); del present[cc]
                        else: lines.append("A %d %d %d %d" % (nid, nid % 4, cc[0], cc[1])); present[cc] = nid; nid += 1
                    hs.append(lines)
    flat = [l for h in hs for l in h]
    rc, o, e, s = vf.sh([drv], input="\n".join(flat) + "\n", timeout=1800)
    c.step("correspond:impl", drv, s, rc == 0)
    rc2, o2, e2, s2 = vf.sh([model, "grid"], input="\n".join(flat) + "\n", timeout=1800)
    c.step("correspond:model", model + " grid", s2, rc2 == 0)
    io, mo = o.split("\n"), o2.split("\n")
    crashed = rc != 0 or len([x for x in io if x]) < len(flat)
    def run_one(h):
        r = vf.sh([drv], input="\n".join(h) + "\n", timeout=60)
        out = r[1].split("\n")[:len(h)]
        return out + [""] * (len(h) - len(out))
    ndiff = npred = 0; first_diff = first_pred = None
    k = 0
    distinct = set()
    for h in hs:
        outs = run_one(h) if crashed else io[k:k + len(h)]
        mouts = mo[k:k + len(h)]; k += len(h)
        if sum(1 for l in h if l[0] == "R") >= 1 and len(h) > 6: distinct.add("\n".join(h))
        bad = predicate(h, outs)
        if bad:
            npred += 1
            if first_pred is None or len(h) < len(first_pred[0]): first_pred = (h, bad)
        if [" ".join(x.split()) for x in outs] != [" ".join(x.split()) for x in mouts]:
            ndiff += 1
            if first_diff is None or len(h) < len(first_diff[0]):
                j = next((j for j, (a, b) in enumerate(zip(outs, mouts)) if " ".join(a.split()) != " ".join(b.split())), 0)
                first_diff = (h, j, outs[j] if j < len(outs) else "", mouts[j] if j < len(mouts) else "")
    c.cov.update({"evaluations": len(flat), "traces_validated_against_impl": len(hs), "distinct_nontrivial": len(distinct),
                  "rule": "random histories of add(create+add)/remove/update/query/clear in dimension 1-4 over a 2-3 wide box (dense border/interior flips) plus far/negative coordinates, with/without bounds, interior limits {default,1,2,2d-1}; thorough adds every add/remove sequence of <=5 ops on a 2x3 region; non-trivial = distinct history with a removal and > 6 ops",
                  "op_histogram": dict(hist), "disagreements": ndiff, "predicate_failures": npred})
    c.cov["samples"] = [" ; ".join(hs[0][:12]), " ; ".join(hs[len(hs) // 2][:12])]
    c.cov["trusted_base"] += ["extraction (ExtrOcamlBasic) + extract/grid_driver.ml; harness/grid_driver.cpp; std::unordered_map meets its specification (iteration order canonicalised away)"]
    c.assumptions += ["histories follow the documented protocol: createCell(coord) immediately followed by add(cell) for an absent coordinate; remove only of present cells",
                      "GridB's cell-update event is the default no-op"]
    def minimise(h, fails):
        body = vf.ddmin(h[1:], lambda b: fails([h[0]] + b))
        return [h[0]] + body
    def wellformed(h):
        present = set()
        for l in h[1:]:
            w = l.split()
            if w[0] == "A":
                cc = tuple(w[3:])
                if cc in present: return False
                present.add(cc)
            elif w[0] == "R":
                cc = tuple(w[1:])
                if cc not in present: return False
                present.discard(cc)
            elif w[0] == "U":
                if tuple(w[2:]) not in present: return False
            elif w[0] == "C": present = set()
        return True
    if first_pred:
        h, bad = first_pred
        fails = lambda cand: wellformed(cand) and predicate(cand, run_one(cand)) is not None
        small = minimise(h, fails) if fails(h) else h
        c.violation("implementation violates C13: " + (predicate(small, run_one(small)) or bad), "# C13 replay: bin/check C13 --replay <this file>\n" + "\n".join(small) + "\n")
    elif first_diff:
        h, j, a, b = first_diff
        c.broken.append("correspondence C13 (Grid/GridN/GridB vs GridModel) differs at op %d '%s' of '%s': implementation '%s' model '%s'" % (j, h[j], " ; ".join(h)[:300], a[:200], b[:200]))
    c.finish()


main()
