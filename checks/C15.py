"""C15 — informed sampling returns only, and all of, the states that can still help.
prove:      coq/Properties_C15.v (over R, every dimension: the sphere maps onto focal sum = c, the ball maps inside, the open
            ball strictly inside, and conversely every point within the bound is the image of a ball point — the transform
            is a linear bijection ball <-> hyperspheroid; measure = scaled unit ball; for any distance-preserving placement
            a direct sample costs strictly less than the bound; sampler retry loops report success only within the cost
            bounds / space bounds, for every draw sequence)
correspond: RejectionInfSampler loops (one and two bounds) on a scripted base sampler vs the extracted model, exactly
search:     the C15 statement on the implementation: ProlateHyperspheroid::transform of unit vectors (random foci, dimension
            2..10, c from just above the focal distance to 100x) has focal sum c and lies on / in the PHS; the reported
            measure equals the analytic volume; direct and rejection samplers (R^n, SE(2)) only return in-bounds samples
            with heuristic cost below the bound (and not below the lower bound); the direct sampler's distribution over
            nested cost levels matches the volume ratios
"""
import os, sys, math, collections, struct
import vf


def fh(x): return float.fromhex(x)


def unit_ball(n):
    v = [1.0, 2.0]
    for k in range(2, n + 1): v.append(2 * math.pi / k * v[k - 2])
    return v[n]


def phs_measure(n, c, cmin):
    return (c / 2) * (math.sqrt(max(c * c - cmin * cmin, 0.0)) / 2) ** (n - 1) * unit_ball(n)


def main():
    c = vf.Check("C15", "proof")
    quick = c.tier == "quick"
    c.prove("Properties_C15.v")
    if not quick: c.coqchk("Properties_C15")
    try:
        c.build_ompl(); drv = c.build_driver("phs_driver", link_ompl=True); model = c.build_model()
    except vf.BuildError as ex:
        c.broken.append("correspondence C15: implementation driver / model does not build: " + str(ex)[-400:]); c.finish()
    rng = c.rng
    ndiff = npred = 0; first_diff = None; first_pred = None; stats = collections.Counter()
    def pred(l, msg):
        nonlocal npred, first_pred
        npred += 1
        if first_pred is None or len(l) < len(first_pred[0]): first_pred = (l, msg)
    # (a) rejection loops, exact
    script = []
    for i in range(500 if quick else 20000):
        numit = rng.choice([0, 1, 2, 3, 5, 10]); maxc = rng.choice([10, 11, 12, 14, 20, 40]); minc = rng.choice([-1, -1, 0, 10, 11, 13, 15])
        tape = [rng.choice([rng.randint(-10, 25), rng.randint(0, 10), 12, 11, 13]) for _ in range(rng.randint(0, 14))]
        script.append("REJ %d %d %d | %s" % (numit, maxc, minc, " ".join(map(str, tape))))
    rc, o, e, s = vf.sh([drv], input="\n".join(script) + "\n", timeout=600); c.step("correspond:impl-rej", drv, s, rc == 0)
    rc2, o2, e2, s2 = vf.sh([model, "phs"], input="\n".join(script) + "\n", timeout=600); c.step("correspond:model-rej", model + " phs", s2, rc2 == 0)
    io, mo = o.split("\n"), o2.split("\n")
    for k, l in enumerate(script):
        a = (io[k] if k < len(io) else "?").split(); b = (mo[k] if k < len(mo) else "?").split()
        w = l.split(); minc = int(w[3]); maxc = int(w[2])
        if a[:2] == ["rej", "none"] or b[:2] == ["rej", "none"]:
            same = True if minc >= 0 else (a[:2] == b[:2])      # two-bound variant: the model does not track script exhaustion
        elif minc < 0: same = a == b
        else: same = a[1:3] == b[1:3]
        if not same:
            ndiff += 1
            if first_diff is None or len(l) < len(first_diff[0]): first_diff = (l, " ".join(a), " ".join(b))
        if len(a) >= 3 and a[1] == "1":
            stats["rej_success"] += 1
            x = int(a[2]); cost = abs(x) + abs(x - 10)
            if not cost < maxc: pred(l, "RejectionInfSampler returned a sample of heuristic cost %d, not below the bound %d" % (cost, maxc))
            if minc >= 0 and cost < minc: pred(l, "RejectionInfSampler returned a sample of heuristic cost %d below the lower bound %d" % (cost, minc))
    # (b) geometry
    glines = []
    for i in range(300 if quick else 10000):
        n = rng.choice([2, 2, 3, 3, 4, 6, 8, 10])
        f1 = [rng.uniform(-2, 2) for _ in range(n)]
        mode = i % 5
        if mode == 0: f2 = [f1[k] + (1.0 if k == 0 else 0.0) for k in range(n)]        # axis aligned
        elif mode == 1: f2 = [f1[k] + 1e-8 * (k + 1) for k in range(n)]                 # foci just beyond the 1e-9 circle tolerance
        else: f2 = [rng.uniform(-2, 2) for _ in range(n)]
        cmin = math.sqrt(sum((a - b) ** 2 for a, b in zip(f1, f2)))
        cfac = rng.choice([1.0 + 1e-9, 1.001, 1.1, 2.0, 10.0, 100.0])
        cc = cmin * cfac if cmin > 0 else 1.0
        u = [rng.gauss(0, 1) for _ in range(n)]; nu = math.sqrt(sum(x * x for x in u)) or 1.0
        rad = rng.choice([1.0, 1.0, 1.0, 0.5, rng.random() ** (1.0 / n)])
        u = [x / nu * rad for x in u]
        glines.append(("PHS %d %s | %s | %s | %s" % (n, cc.hex(), " ".join(x.hex() for x in f1), " ".join(x.hex() for x in f2), " ".join(x.hex() for x in u)), n, cc, cmin, rad))
    rc, o, e, s = vf.sh([drv], input="\n".join(g[0] for g in glines) + "\n", timeout=600); c.step("impl:phs-geometry", drv + " PHS ...", s, rc == 0)
    for (l, n, cc, cmin, rad), out in zip(glines, o.split("\n")):
        w = out.split()
        if w[:1] != ["phs"]: pred(l, "no observation: " + out[:80]); continue
        stats["phs"] += 1
        plen, cmin_i, meas, meas2 = fh(w[1]), fh(w[2]), fh(w[3]), fh(w[4])
        tol = 1e-9 * max(cc, 1.0) + 4e-8 * cmin * 0      # rotation is orthogonal to ~1e-15; sums of square roots: 1e-9 relative is generous
        if rad == 1.0 and abs(plen - cc) > 1e-9 * max(1.0, cc): pred(l, "unit-sphere point maps to summed focal distance %r, transverse diameter is %r" % (plen, cc))
        if rad < 1.0 and plen > cc * (1 + 1e-12): pred(l, "unit-ball point (radius %g) maps outside the hyperspheroid: %r > %r" % (rad, plen, cc))
        exp = phs_measure(n, cc, cmin_i)
        if abs(meas - exp) > 1e-9 * max(exp, 1e-300) or meas != meas2: pred(l, "reported measure %r, analytic volume %r" % (meas, exp))
        ub = fh(w[w.index("unitball") + 1])
        if abs(ub - unit_ball(n)) > 1e-12 * unit_ball(n): pred(l, "unitNBallMeasure(%d) = %r, recurrence gives %r" % (n, ub, unit_ball(n)))
    # (b2) 'all of': the library's transform, recovered as an affine map from n + 1 calls, inverted at world points on both
    #      sides of the bound: a point whose cost is within the bound is the image of a ball point (PhsGeom.v:
    #      phs_point_is_image_of_ball_n), one beyond it is not; and the columns of the map are orthogonal with the
    #      semi-axes as lengths (the distance-preservation hypothesis of the world-frame theorems, numerically)
    ilines = []
    for i in range(200 if quick else 6000):
        n = rng.choice([2, 2, 3, 3, 4, 6, 8, 10])
        f1 = [rng.uniform(-2, 2) for _ in range(n)]
        f2 = [f1[k] + (1.0 if k == 0 else 0.0) for k in range(n)] if i % 4 == 0 else [rng.uniform(-2, 2) for _ in range(n)]
        cmin = math.sqrt(sum((a - b) ** 2 for a, b in zip(f1, f2)))
        cc = cmin * rng.choice([1.001, 1.1, 1.5, 2.0, 10.0])
        t = rng.uniform(-0.3, 1.3); sc = rng.choice([0.05, 0.3, 1.0]) * cc
        p = [f1[k] + t * (f2[k] - f1[k]) + sc * rng.gauss(0, 1) / math.sqrt(n) for k in range(n)]
        ilines.append(("PHSINV %d %s | %s | %s | %s" % (n, cc.hex(), " ".join(x.hex() for x in f1), " ".join(x.hex() for x in f2), " ".join(x.hex() for x in p)), cc))
    rc, o, e, s = vf.sh([drv], input="\n".join(g[0] for g in ilines) + "\n", timeout=600); c.step("impl:phs-inverse", drv + " PHSINV ...", s, rc == 0)
    for (l, cc), out in zip(ilines, o.split("\n")):
        w = out.split()
        if w[:2] != ["phsinv", "len"]: pred(l, "no observation (transform not invertible?): " + out[:80]); continue
        plen, nu, res, dev = fh(w[2]), fh(w[4]), fh(w[6]), fh(w[8])
        stats["phs_inverse_inside" if plen <= cc else "phs_inverse_outside"] += 1
        if dev > 1e-9: pred(l, "the transform is not rotation x diag(semi-axes): its columns deviate from orthogonality / the semi-axis lengths by %.3g (relative)" % dev)
        if res > 1e-7 * max(1.0, cc): continue                               # ill-conditioned solve (c barely above cmin): no verdict
        margin = 1e-6
        if plen <= cc * (1 - margin) and nu > 1.0: pred(l, "a state of cost %r, within the bound %r, is not the image of any unit-ball point (pre-image has squared norm %r): it can never be sampled" % (plen, cc, nu))
        if plen >= cc * (1 + margin) and nu < 1.0: pred(l, "a state of cost %r, beyond the bound %r, is the image of a unit-ball point (squared norm %r)" % (plen, cc, nu))
    # (c) samplers with the real generator
    slines = []
    nsamp = 4000 if quick else 60000
    for kind in ("direct", "rejection"):
        for dim in (2, 3, 6, 0):
            for cf in (1.02, 1.3, 3.0, 40.0):
                for mf in (-1, 1.0 + (cf - 1) * 0.5):
                    slines.append("INF %s %d %g %d %d %g" % (kind, dim, cf, nsamp if kind == "direct" or cf > 1.2 else nsamp // 10, rng.randint(1, 10 ** 6), mf))
    rc, o, e, s = vf.sh([drv], input="\n".join(slines) + "\n", timeout=3000); c.step("impl:informed-samplers", drv + " INF ...", s, rc == 0)
    for l, out in zip(slines, o.split("\n")):
        w = out.split()
        if w[:1] != ["inf"]: pred(l, "no observation: " + out[:80]); continue
        d = {key: w[w.index(key) + 1] for key in ("ok", "oob", "over", "under", "cmin", "max", "measure") if key in w}
        ok, oob, over, under = int(d["ok"]), int(d["oob"]), int(d["over"]), int(d["under"]); stats["samples"] += ok
        kind = l.split()[1]; dim = int(l.split()[2]); cf = float(l.split()[3]); mf = float(l.split()[6])
        if oob: pred(l, "%d of %d successful informed samples are outside the space bounds" % (oob, ok))
        if over and kind == "direct": pred(l, "%d of %d successful direct samples have a heuristic cost not below the bound" % (over, ok))
        if under: pred(l, "%d of %d successful samples have a heuristic cost below the lower bound" % (under, ok))
        # uniformity over nested cost levels: only when the whole hyperspheroid fits in the bounds (small c) and there is no lower bound
        lv = [int(x) for x in w[w.index("levels") + 1:w.index("levels") + 5]]
        if kind == "direct" and mf < 0 and cf <= 1.3 and ok > 1000 and dim in (2, 3, 6):
            cmin, maxc = fh(d["cmin"]), fh(d["max"]); n = dim
            for k in range(4):
                lvl = cmin + (maxc - cmin) * (k + 1) / 5.0
                p = phs_measure(n, lvl, cmin) / phs_measure(n, maxc, cmin)
                sd = math.sqrt(p * (1 - p) / ok)
                if abs(lv[k] / ok - p) > 6 * sd + 1e-3:
                    pred(l, "direct samples are not uniform over the hyperspheroid: fraction with cost below level %d/5 is %.4f, volume ratio is %.4f (6 sigma = %.4f)" % (k + 1, lv[k] / ok, p, 6 * sd))
                    break
    # (d) several goals: overlapping hyperspheroids; the direct sampler keeps a candidate with probability 1/K so that the union is covered uniformly
    mlines = ["INFM %d %g %d %d" % (dim, cf, nsamp, rng.randint(1, 10 ** 6)) for dim in (2, 3, 4) for cf in (1.15, 1.4)]
    rc, o, e, s = vf.sh([drv], input="\n".join(mlines) + "\n", timeout=3000); c.step("impl:informed-multi-goal", drv + " INFM ...", s, rc == 0)
    for l, out in zip(mlines, o.split("\n")):
        w = out.split()
        if w[:1] != ["infm"]: pred(l, "no observation: " + out[:80]); continue
        ok, both, none, rin, rboth = int(w[3]), int(w[5]), int(w[7]), int(w[9]), int(w[11]); stats["multi_goal_samples"] += ok
        if none: pred(l, "%d of %d direct samples lie in none of the hyperspheroids (cost not below the bound)" % (none, ok))
        if ok > 1000 and rin > 1000:
            p = rboth / rin; sd = math.sqrt(max(p * (1 - p), 1e-9) * (1.0 / ok + 1.0 / rin))
            if abs(both / ok - p) > 6 * sd + 2e-3:
                pred(l, "with two goals the region where the hyperspheroids overlap holds %.4f of the informed set but received %.4f of the direct samples (6 sigma = %.4f): states that can still help are under-sampled" % (p, both / ok, 6 * sd))
    # (e) several start states: the heuristic is the best over ALL starts (rejection and direct samplers), with and without a lower bound
    slines2 = []
    for kind in ("rejection", "direct"):
        for dim in (2, 3):
            for ns in (1, 2, 3, 4):
                slines2.append("INFS %s %d %d %g %g %d %d" % (kind, dim, ns, 9.5, -1, nsamp, rng.randint(1, 10 ** 6)))
                if kind == "rejection": slines2.append("INFS %s %d %d %g %g %d %d" % (kind, dim, ns, 9.5, 8.5, nsamp, rng.randint(1, 10 ** 6)))
    rc, o, e, s = vf.sh([drv], input="\n".join(slines2) + "\n", timeout=3000); c.step("impl:informed-multi-start", drv + " INFS ...", s, rc == 0)
    for l, out in zip(slines2, o.split("\n")):
        w = out.split()
        if w[:1] != ["infs"]: pred(l, "no observation: " + out[:80]); continue
        ok, over, under = int(w[5]), int(w[7]), int(w[9]); only = list(map(int, w[11:15])); rin = int(w[16]); ronly = list(map(int, w[18:22])); stats["multi_start_samples"] += ok
        if over: pred(l, "%d of %d samples cannot improve the solution through any start (best focal sum not below the cost bound)" % (over, ok))
        if under: pred(l, "%d of %d samples have a best focal sum below the lower cost bound" % (under, ok))
        if ok > 1000 and rin > 1000:
            for i in range(4):
                p = ronly[i] / rin; sd = math.sqrt(max(p * (1 - p), 1e-9) * (1.0 / ok + 1.0 / rin))
                if abs(only[i] / ok - p) > 6 * sd + 2e-3:
                    pred(l, "states that improve the solution only through start %d hold %.4f of the informed set but received %.4f of the samples (6 sigma = %.4f)" % (i, p, only[i] / ok, 6 * sd)); break
    c.cov.update({"evaluations": len(script) + len(glines) + stats["samples"], "traces_validated_against_impl": len(script), "distinct_nontrivial": stats["rej_success"] + stats["phs"],
                  "rule": "(a) %d scripted rejection-sampler calls (iteration limits 0..10, one / two bounds, candidates on both sides of the bounds) compared exactly; (b) %d hyperspheroids (+ %d inverted world points on both sides of the bound): dimension 2..10, random / axis-aligned / nearly coincident foci (1e-8 apart), transverse diameter (1+1e-9)..100 x the focal distance, unit vectors on the sphere and inside the ball; (c) direct and rejection samplers on R^2, R^3, R^6, SE(2) with cost bound 1.02..40 x the focal distance, with and without lower bound, %d samples each with the real generator, incl. a 6-sigma level test of uniformity" % (len(script), len(glines), len(ilines), nsamp),
                  "disagreements": ndiff, "predicate_failures": npred, "histogram": dict(stats)})
    c.cov["samples"] = [script[0], glines[0][0][:160], slines[0]]
    c.cov["trusted_base"] += ["extraction (ExtrOcamlBasic) + extract/phs_driver.ml; harness/phs_driver.cpp; stdlib real-number axioms for the geometric theorems",
                             "the rotation into the world frame (Eigen JacobiSVD) is not modelled: the theorems are stated in the hyperspheroid's own frame and the transform is checked numerically (1e-9 relative)"]
    c.assumptions += ["uniformity: proved as 'the transform is a linear bijection ball <-> hyperspheroid with constant Jacobian' (PhsGeom.v); that a linear bijection carries the uniform density to the uniform density is measure theory not formalised here; the distribution of the library's generator is a statistical test (6 sigma on 4 nested levels)",
                      "the world-frame theorems hold for every distance-preserving placement of the frame; that the library's rotation (Eigen JacobiSVD) is one is checked numerically (PHSINV: columns orthogonal with the semi-axes as lengths, 1e-9 relative)",
                      "OrderedInfSampler is covered by C03/C01 runs of SORRT* only; several starts / goals by the INFS / INFM statistical tests"]
    if first_pred:
        l, msg = first_pred
        c.violation("implementation violates C15: %s on '%s'" % (msg, l[:300]), "# C15 replay: feed to build/harness/phs_driver\n%s\n" % l)
    elif first_diff:
        c.broken.append("correspondence C15 (RejectionInfSampler loops vs PhsModel): on '%s' implementation '%s' model '%s'" % first_diff)
    c.finish()


main()
