"""C04 — reported solution costs and ordering (ordering / cost-algebra core).
prove:      coq/Properties_C04.v (operator< is the intended lexicographic order and a strict weak order for solution
            sets sharing one objective; sorted after any adds; best first; best never worse; path length >= direct
            distance for any metric)
correspond: synthetic PlannerSolutions through a real ProblemDefinition of /repo vs the extracted model: after every
            add the stored order (as rank classes), top solution flags
search:     the property predicate on the implementation (independent python oracle); PathGeometric::length/cost on
            random R^2 paths is never below the straight-line distance and meets-objective agrees with the threshold
"""
import os, collections, itertools, math
import vf


def rank(s):
    approx, diff, opt, kind, cost, ln = s
    if approx: return (1, diff, 0)
    return (0, 0 if opt else 1, (-cost if kind == 2 else cost) if kind else ln)


def main():
    c = vf.Check("C04", "proof")
    quick = c.tier == "quick"
    c.prove("Properties_C04.v")
    if not quick:
        c.coqchk("Properties_C04")
    try:
        c.build_ompl()
        drv = c.build_driver("sol_driver", link_ompl=True)
        model = c.build_model()
    except vf.BuildError as ex:
        c.broken.append("correspondence C04: implementation/driver/model does not build: " + str(ex)[-400:])
        c.finish()
    rng = c.rng
    sets = []     # list of (list of sols)
    if c.replay:
        cur = []
        for l in open(c.replay):
            w = l.split()
            if not w or w[0].startswith("#"): continue
            if w[0] == "N":
                if cur: sets.append(cur)
                cur = []
            elif w[0] == "ADD": cur.append(tuple(int(float(x)) for x in w[1:7]))
        if cur: sets.append(cur)
    else:
        def rsol(kind):
            approx = 1 if rng.random() < 0.35 else 0
            return (approx, rng.randint(0, 4), 1 if rng.random() < 0.4 else 0, kind, rng.randint(0, 6), rng.randint(0, 6))
        # every insertion order of multisets of 5 solutions (one objective kind per set)
        for i in range(12 if quick else 60):
            kind = i % 3
            ms = [rsol(kind) for _ in range(5)]
            for perm in itertools.permutations(ms):
                sets.append(list(perm))
        for i in range(600 if quick else 20000):
            kind = rng.randint(0, 2)
            sets.append([rsol(kind) for _ in range(rng.randint(1, 12))])
    lines = []
    for st in sets:
        lines.append("N")
        for s in st: lines.append("ADD %d %d %d %d %d %d" % s)
    rc, o, e, s_ = vf.sh([drv], input="\n".join(lines) + "\n", timeout=900)
    c.step("correspond:impl", drv, s_, rc == 0)
    rc2, o2, e2, s2 = vf.sh([model, "sol"], input="\n".join(lines) + "\n", timeout=900)
    c.step("correspond:model", model + " sol", s2, rc2 == 0)
    io, mo = o.split("\n"), o2.split("\n")
    io += [""] * (len(lines) - len(io)); mo += [""] * (len(lines) - len(mo))
    ndiff = npred = 0; first_diff = first_pred = None
    k = 0
    distinct = set()
    for st in sets:
        k += 1
        if len(st) >= 3 and len(set(rank(x) for x in st)) >= 3: distinct.add(tuple(sorted(st)))
        bad = None; differs = False
        for j in range(len(st)):
            il, ml = io[k], mo[k]; k += 1
            try:
                ih, iord, itop = [x.strip() for x in il.split("|")]
                order = [int(x) for x in iord.split()]
                tw = itop.split()
                mord = [int(x) for x in ml.split("|")[1].split()]
            except Exception:
                bad = bad or "no observation after add #%d (crash?)" % j; differs = True; continue
            cur = st[:j + 1]
            iranks = [rank(cur[i]) for i in order] if all(0 <= i <= j for i in order) else None
            mranks = [rank(cur[i]) for i in mord]
            if iranks != mranks: differs = True
            # predicate (independent of the model)
            if int(ih) != j + 1 or sorted(order) != list(range(j + 1)):
                bad = bad or "after add #%d the set holds %s, expected all of 0..%d" % (j, order, j)
            elif iranks != sorted(iranks):
                bad = bad or "after add #%d the solutions are not best-first: ranks %s" % (j, iranks)
            else:
                best = min(rank(x) for x in cur)
                t = cur[int(tw[0])]
                if rank(t) != best: bad = bad or "top solution has rank %s but rank %s is stored" % (rank(t), best)
                if (int(tw[1]) == 1) != (t[0] == 1): bad = bad or "hasApproximateSolution disagrees with the top solution"
                if (int(tw[4]) == 1) != (t[0] == 0): bad = bad or "hasExactSolution disagrees with the top solution"
                if (int(tw[2]) == 1) != (t[2] == 1): bad = bad or "hasOptimizedSolution disagrees with the top solution"
        if bad:
            npred += 1
            if first_pred is None or len(st) < len(first_pred[0]): first_pred = (st, bad)
        if differs:
            ndiff += 1
            if first_diff is None or len(st) < len(first_diff[0]): first_diff = (st, "")
    # ---- path length / cost on random R^2 paths
    paths = []
    for i in range(300 if quick else 5000):
        n = rng.randint(1, 12)
        pts = [(rng.choice([rng.uniform(-50, 50), 0.0, 1.0]), rng.uniform(-50, 50)) for _ in range(n)]
        if i % 7 == 0: pts = pts + pts[-1:]           # repeated state
        paths.append(pts)
    pl = ["COST %d %s" % (len(p), " ".join("%r %r" % q for q in p)) for p in paths]
    rc3, o3, e3, s3 = vf.sh([drv], input="\n".join(pl) + "\n", timeout=300)
    costs = [l.split() for l in o3.split("\n") if l.startswith("cost")]
    for p, cw in zip(paths, costs):
        if cw[1] != cw[2]: npred += 1; first_pred = first_pred or ([], "PathGeometric::length and cost(path length objective) differ on %r" % (p,))
        if cw[3] != "1": npred += 1; first_pred = first_pred or ([], "path length below the straight-line distance on %r" % (p,))
    if len(costs) != len(paths): c.broken.append("cost driver produced %d of %d answers" % (len(costs), len(paths)))
    c.cov.update({"evaluations": len(lines) + len(paths), "traces_validated_against_impl": len(sets), "distinct_nontrivial": len(distinct),
                  "rule": "every insertion order of multisets of 5 synthetic solutions plus random sets of <=12, one objective kind per set (none / path length / max-min clearance), small integer costs with many ties; 300+ random R^2 paths; non-trivial = distinct multiset with >=3 solutions of >=3 different ranks",
                  "disagreements": ndiff, "predicate_failures": npred, "paths": len(paths)})
    c.cov["samples"] = [" ; ".join("ADD %d %d %d %d %d %d" % s for s in sets[0]), pl[0][:200]]
    c.cov["trusted_base"] += ["extraction (ExtrOcamlBasic) + extract/sol_driver.ml; harness/sol_driver.cpp; std::sort meets its specification for strict weak orders",
                             "stdlib real-number axioms for C04_path_length_ge_direct_distance only"]
    c.assumptions += ["solution sets share one optimization objective (or none): for mixed sets operator< is not a strict weak order (C04_mixed_objective_refuted, known finding)",
                      "planner-level clauses (stored cost vs recomputed cost per planner, monotone best cost over resumed solves) are not part of this check"]
    # the mixed-objective witness on the real code (known finding)
    mix = ["N", "ADD 0 0 0 1 1 20", "ADD 0 0 0 0 0 20", "ADD 0 0 0 1 2 5"]
    # b ~ c, c ~ d, b < d : whether the set comes out best-first depends on insertion order
    worst = None
    for perm in itertools.permutations([(0, 0, 0, 1, 1, 9), (0, 0, 0, 0, 0, 6), (0, 0, 0, 1, 2, 5), (0, 0, 0, 0, 0, 7), (0, 0, 0, 1, 3, 3), (0, 0, 0, 1, 0, 8), (0, 0, 0, 0, 0, 6)]):
        pass
    seq = [(0, 0, 0, 1, 10, 9), (0, 0, 0, 0, 0, 6), (0, 0, 0, 1, 20, 5), (0, 0, 0, 0, 0, 7), (0, 0, 0, 1, 30, 3), (0, 0, 0, 1, 5, 8), (0, 0, 0, 0, 0, 6)]
    ml = ["N"] + ["ADD %d %d %d %d %d %d" % s for s in seq]
    rc4, o4, e4, s4 = vf.sh([drv], input="\n".join(ml) + "\n", timeout=60)
    try:
        last = [l for l in o4.split("\n") if "|" in l][-1]
        order = [int(x) for x in last.split("|")[1].split()]
        withobj = [seq[i][4] for i in order if seq[i][3] == 1]
        if withobj != sorted(withobj):
            what = "solutions with and without an optimization objective mixed in one problem definition: operator< is not a strict weak order, stored order of objective costs %s is not best-first" % withobj
            if not c.known_finding("C04-mixed-objective-order", what):
                c.violation("implementation violates C04: " + what, "# C04 replay\n" + "\n".join(ml) + "\n")
    except Exception:
        pass
    # ---- planner level: optimizing planners solved repeatedly under three objectives; every stored solution re-costed
    import subprocess, concurrent.futures as cf, time
    try:
        cdrv = c.build_driver("cost_driver", link_ompl=True)
    except vf.BuildError as ex:
        c.broken.append("correspondence C04: cost driver does not build: " + str(ex)[-300:]); c.finish()
    OPT = "RRTstar InformedRRTstar SORRTstar RRTsharp RRTXstatic BITstar ABITstar AITstar EITstar EIRMstar PRMstar LazyPRMstar FMT BFMT LBTRRT LazyLBTRRT SST TRRT CForest AnytimePathShortening".split()
    pjobs = []
    for pl_ in OPT:
        for objn in ("length", "integral", "work", "multi", "clearance"):
            for r in range(1 if quick else 6):
                pjobs.append("CRUN %s %s %s %d %s %g %d %g %d" % (pl_, rng.choice(["R2", "SE2", "R3"]) if r else "R2", rng.choice(["boxes3", "gap", "circles5", "empty", "thin"]), rng.randint(0, 1), objn,
                                                                rng.choice([0, 1.3, 2.0]), rng.randint(1, 10 ** 6), 0.25 if quick else 0.6, 3))
        # resumed at the incumbent: after every solve the threshold is set to the best stored cost and the solutions are cleared
        for objn in ("length", "clearance"):
            pjobs.append("CRUN %s R2 %s %d %s -1 %d %g 3" % (pl_, rng.choice(["empty", "boxes3", "gap"]), rng.randint(0, 1), objn, rng.randint(1, 10 ** 6), 0.15 if quick else 0.4))
    for ps_ in range(1, 9):       # regression probes of a repaired defect: PRM::constructRoadmap reset bestCost_ after the solution thread had stored the cost of an immediate solution (timing dependent: several tries, run concurrently)
        pjobs.append("CRUN %s R2 empty 0 length 1.3 %d 0.3 3" % ("PRMstar" if ps_ % 2 else "PRM", ps_))
    pjobs.append("CRUN RRTstar R2 empty 1 work 0 7 0.3 3")      # regression probe of the repaired defect (isSymmetric of the mechanical-work objective)
    pjobs.append("CRUN PRMstar R2 empty 1 work 0 7 0.3 3")      # fixed probe of the known finding C04-prm-undirected-roadmap-direction-dependent-cost
    def run_job(j):
        try:
            r = subprocess.run([cdrv] + j.split(), capture_output=True, text=True, timeout=120); return j, r.returncode, r.stdout
        except subprocess.TimeoutExpired: return j, -999, ""
    t0 = time.time()
    with cf.ThreadPoolExecutor(12) as ex: pres = list(ex.map(run_job, pjobs))
    c.step("impl:planner-costs", "%s CRUN ... (%d runs x 3 solves)" % (cdrv, len(pjobs)), time.time() - t0, True)
    pstats = collections.Counter(); pfail = collections.Counter(); plines = []; pmeta = []; costcases = []
    def ppred(j, msg, slug=None):
        nonlocal npred, first_pred
        if slug and c.known_finding(slug, msg + " ('%s')" % j): pstats["known:" + slug] += 1; return
        npred += 1; pfail[j.split()[1] + ": " + msg[:60]] += 1
        if first_pred is None: first_pred = ("PLANNER", j + " :: " + msg)
    for j, rcj, out in pres:
        w = j.split(); pl_, objn = w[1], w[5]
        if "SKIP" in out: pstats["skipped"] += 1; continue
        if "END" not in out: pstats["no_return"] += 1; continue       # crashes / hangs are C03's subject
        kind = 2 if objn == "clearance" else 1
        best_prev = None; cur = []
        def flush(k):
            nonlocal best_prev
            if not cur: return
            pstats["solution_sets"] += 1
            # order: the model's insertion sort of the same multiset must give the same rank sequence
            plines.append("N"); 
            for s_ in cur: plines.append("ADD %d %d %d %d %d %d" % (s_["approx"], max(s_["diff"], 0) if s_["approx"] else 0, s_["opt"], kind if s_["hasopt"] else 0, s_["stored"] if s_["hasopt"] else 0, s_["len"]))
            pmeta.append((j, k, [dict(x) for x in cur]))
            for si_, s_ in enumerate(cur):
                if "raw" in s_ and all(x in s_["raw"] for x in ("PTS", "SC", "TRUE")): costcases.append((j, k, si_, s_["raw"]))
            top = cur[0]
            if top["hasopt"] and not top["approx"]:
                if best_prev is not None and ((kind == 1 and top["stored"] > best_prev + max(1000, best_prev // 10 ** 7)) or (kind == 2 and top["stored"] < best_prev - 1000)):
                    ppred(j, "the best stored cost got worse across solve() calls: %g -> %g (solve %d)" % (best_prev / 1e9, top["stored"] / 1e9, k))
                best_prev = top["stored"]
        for l in out.split("\n"):
            t = l.split()
            if not t: continue
            if t[0] == "SOLVE":
                if cur: flush(int(t[1]) - 1)
                cur = []
            elif t[0] in ("PTS", "SC", "MM", "TRUE") and cur:
                rec = cur[-1].setdefault("raw", {}); rec[t[0]] = l
            elif t[0] == "SOL":
                s_ = dict(approx=int(t[2]), diff=int(t[3]), opt=int(t[4]), hasopt=int(t[5]), stored=int(t[6]), true=int(t[7]), len=int(t[8]), lower=int(t[9]), sat=int(t[10]))
                cur.append(s_); pstats["solutions"] += 1
                if s_["hasopt"]:
                    tol = max(2000, abs(s_["true"]) // 10 ** 6)
                    better = (s_["stored"] < s_["true"] - tol) if kind == 1 else (s_["stored"] > s_["true"] + tol)
                    if better: ppred(j, "stored cost %.9f is better than the true cost %.9f of the path under the objective (%s)" % (s_["stored"] / 1e9, s_["true"] / 1e9, objn),
                                     "C04-prm-undirected-roadmap-direction-dependent-cost" if (objn == "work" and pl_ in ("PRMstar", "LazyPRMstar")) else None)
                    if not s_["approx"] and bool(s_["opt"]) != bool(s_["sat"]): ppred(j, "solution marked optimized=%d but its stored cost %s the objective's threshold" % (s_["opt"], "satisfies" if s_["sat"] else "does not satisfy"))
                if kind == 1 and s_["lower"] > -10 ** 17 and s_["true"] < s_["lower"] - max(2000, s_["lower"] // 10 ** 6):
                    ppred(j, "true cost %.9f is below the admissible lower bound %.9f (%s)" % (s_["true"] / 1e9, s_["lower"] / 1e9, objn))
        flush(99)
    if plines:
        rcm, om, em, sm = vf.sh([model, "sol"], input="\n".join(plines) + "\n", timeout=900); c.step("correspond:model-planner-order", model + " sol", sm, rcm == 0)
        mo2 = om.split("\n"); kk = 0
        for (j, k, cur) in pmeta:
            kk += 1  # the "N" line
            last = None
            for _ in cur: last = mo2[kk] if kk < len(mo2) else ""; kk += 1
            try: mord = [int(x) for x in last.split("|")[1].split()]
            except Exception: continue
            def rk(s_): return rank((s_["approx"], max(s_["diff"], 0) if s_["approx"] else 0, s_["opt"], (2 if j.split()[5] == "clearance" else 1) if s_["hasopt"] else 0, s_["stored"] if s_["hasopt"] else 0, s_["len"]))
            iranks = [rk(x) for x in cur]; mranks = [rk(cur[i]) for i in mord]
            mixed = len(set(x["hasopt"] for x in cur)) > 1
            if iranks != sorted(iranks) and not mixed: ppred(j, "the problem definition does not hand out the solutions best-first after solve %d: ranks %s" % (k, iranks[:6]))
            if iranks != mranks and not mixed:
                ndiff += 1
                if first_diff is None: first_diff = ([], "planner solution set of '%s' solve %d: implementation ranks %s model %s" % (j, k, iranks[:6], mranks[:6]))
    # ---- the cost of every reported path re-computed by the model (CostModel.v, binary64 instance) from the path's
    #      states, the objective's state costs and the state costs MinimaxObjective evaluated along each motion:
    #      bit for bit PathGeometric::cost(objective) and PathGeometric::length()
    import struct
    from spaces_common import Space, parse_nested, cq
    SPACES = {"R2": Space("RV", bounds=[(0.0, 1.0)] * 2), "R3": Space("RV", bounds=[(0.0, 1.0)] * 3),
              "SE2": Space("CO", subs=[(1.0, Space("RV", bounds=[(0.0, 1.0)] * 2)), (0.5, Space("SO2"))])}
    def fl(h): return struct.unpack("<d", struct.pack("<Q", int(h, 16)))[0]
    seen_paths = set(); todo = []
    for (j, k, si_, raw) in costcases:
        spn, objn = j.split()[2], j.split()[5]
        if spn not in SPACES: continue
        key = (spn, objn, raw["PTS"], raw.get("MM", ""))
        if key in seen_paths: continue
        seen_paths.add(key)
        w = raw["PTS"].split(); n, dim = int(w[2]), int(w[3]); vals = [fl(x) for x in w[5:]]
        if len(vals) != n * dim: continue
        sc = [fl(x) for x in raw["SC"].split()[3:]]
        tb = raw["TRUE"].split()[3:]
        mm = None
        if objn == "clearance":
            mm = [[fl(x) for x in part.split()] for part in raw.get("MM", "MM 0 :").split(":", 1)[1].split(";") if part.split()]
        todo.append((j, k, si_, spn, objn, [vals[a * dim:(a + 1) * dim] for a in range(n)], sc, mm, tb))
    ncost = ncost_bad = 0; tcost = 0.0
    cap = 500 if quick else 6000
    if len(todo) > cap:
        rng.shuffle(todo); todo = todo[:cap]
    def eval_shard(a):
        part = todo[a:a + 40]
        src = "From Coq Require Import List Floats. From OmplV Require Import SpacesModel SpacesFloat CostModel. Import ListNotations.\nLocal Open Scope float_scope.\nEval vm_compute in [\n"
        items = []
        for (j, k, si_, spn, objn, pts, sc, mm, tb) in part:
            sp = SPACES[spn]
            ptl = "[%s]" % "; ".join("(%s, %s)" % (sp.state_coq(pv), cq(cv)) for pv, cv in zip(pts, sc))
            third = ("mm_path FlA (fun a b => PrimFloat.ltb b a) infinity [%s]" % "; ".join("[%s]" % "; ".join(cq(v) for v in ev) for ev in mm)) if mm is not None else "0"
            items.append("[cost_length FlA _ (distance FlA %s) %s; cost_integral FlA _ (distance FlA %s) %s; %s; cost_work FlA _ (distance FlA %s) %s %s; cost_multi FlA _ [(%s, length_motion FlA _ (distance FlA %s)); (%s, integral_motion FlA _ (distance FlA %s))] %s]" % (sp.coq(), ptl, sp.coq(), ptl, third, sp.coq(), cq(0.05), ptl, cq(1.0), sp.coq(), cq(0.05), sp.coq(), ptl))
        src += ";\n".join(items) + "].\n"
        path = os.path.join(c.outdir, "cases_cost_%d.v" % a)
        open(path, "w").write(src)
        return (part, path) + vf.sh("timeout 1500 coqc -Q %s OmplV %s" % (vf.COQ, path), timeout=1600)
    with cf.ThreadPoolExecutor(6) as ex: shards = list(ex.map(eval_shard, range(0, len(todo), 40)))
    for part, path, rc5, o5, e5, s5 in shards:
        tcost += s5
        if rc5 != 0: c.broken.append("model evaluation (coqc %s) failed: %s" % (os.path.basename(path), (e5 or o5)[-300:])); break
        for (j, k, si_, spn, objn, pts, sc, mm, tb), res in zip(part, parse_nested(o5)):
            ncost += 1
            def bits_(x): return "%016x" % struct.unpack("<Q", struct.pack("<d", x))[0]
            mlen, mint, mmm, mwork, mmulti = res
            want = {"length": mlen, "integral": mint, "clearance": mmm, "work": mwork, "multi": mmulti}[objn]
            ok = bits_(mlen) == tb[1] and bits_(want) == tb[0]
            if len(pts) == 0: ok = True
            if not ok:
                ncost_bad += 1; ndiff += 1
                if first_diff is None: first_diff = ([], "cost of the solution %d reported by '%s' (solve %d): PathGeometric::cost = %s, length = %s; CostModel (%s) = %s, length %s" % (si_, j, k, tb[0], tb[1], objn, bits_(want), bits_(mlen)))
    # ---- geometric::RRTstar on scripted runs (lib/rrtstar_scripts.py; the same runs the C01 check compares with RrtStarModel bit for bit):
    #      every motion's cost = its parent's cost + its incCost, incCost = the objective's motion cost from the parent, the stored cost of the
    #      report is not better than the cost of the reported path, optimized flag = threshold test; path length and mechanical work
    import rrtstar_scripts as rss
    try:
        rdrv4 = c.build_driver("rrt_driver", link_ompl=True)
        sl4, _ = rss.gen(rng, 150 if quick else 3000)
        rc8, o8, e8, s8 = vf.sh([rdrv4], input="\n".join(sl4) + "\n", timeout=900); c.step("impl:rrtstar-cost-bookkeeping", rdrv4 + " RRTS ... (%d scripted runs)" % len(sl4), s8, rc8 == 0)
        il4 = [l for l in o8.split("\n") if l.startswith("rrts")]; nrew = 0
        for k4, sl in enumerate(sl4):
            try:
                jd = rss.judge(sl, il4[k4].strip() if k4 < len(il4) else "<no output>"); nrew += sum(1 for j_, t in enumerate(jd["nodes"]) if int(t[2]) > j_)
                if jd["cost_bad"]:
                    npred += 1; pfail["RRTstar(scripted): " + jd["cost_bad"][:50]] += 1
                    if first_pred is None: first_pred = ("PLANNER", sl + " :: geometric::RRTstar (scripted run): " + jd["cost_bad"])
            except Exception as ex:
                npred += 1
                if first_pred is None: first_pred = ("PLANNER", sl + " :: geometric::RRTstar (scripted run): no observation (%s)" % ex)
        pstats["rrtstar_scripted_runs"] = len(sl4); pstats["rrtstar_rewired_motions"] = nrew
    except vf.BuildError as ex:
        c.broken.append("correspondence C04: rrt_driver does not build: " + str(ex)[-300:])
    c.step("correspond:model-path-costs", "coqc cases_cost_*.v (CostModel on binary64: %d distinct reported paths)" % ncost, tcost, ncost_bad == 0)
    c.cov.update({"path_costs_recomputed_by_model": ncost, "path_cost_disagreements": ncost_bad})
    c.cov.update({"planner_runs": len(pjobs), "planner_histogram": dict(pstats), "planner_failures_by_kind": dict(pfail)})
    c.cov["evaluations"] += len(pjobs) * 3
    c.assumptions[:] = [a for a in c.assumptions if "planner-level clauses" not in a] + ["planner-level clauses are checked per run on 20 optimizing planners x {path length, state-cost integral, mechanical work over a sloped potential (the direction-dependent one), the weighted multi-objective 1 x length + 0.05 x integral, max-min clearance} x 3 consecutive solves, not proved"]
    if first_pred and first_pred[0] == "PLANNER":
        c.violation("implementation violates C04: " + first_pred[1], "# C04 replay: build/harness/cost_driver <the line>  (RRTS lines: feed to build/harness/rrt_driver)\n" + first_pred[1].split(" :: ")[0] + "\n"); c.finish()
    if first_pred:
        st, bad = first_pred
        c.violation("implementation violates C04: " + bad, "# C04 replay: bin/check C04 --replay <this file>\nN\n" + "\n".join("ADD %d %d %d %d %d %d" % s for s in st) + "\n")
    elif first_diff:
        st, _ = first_diff
        c.broken.append("correspondence C04 (ProblemDefinition solution order vs SolModel) differs on: " + (_ if not st else " ; ".join("ADD %d %d %d %d %d %d" % s for s in st)))
    c.finish()


main()
