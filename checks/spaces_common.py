"""Shared machinery for C06 / C07 / C08: generated spaces / states, the implementation driver (harness/space_driver.cpp)
and the binary64 instance of the Gallina model evaluated by vm_compute (coq/SpacesRun.v)."""
import math, os, re, struct
import vf

PI = 3.141592653589793


def bits(x): return struct.unpack("<Q", struct.pack("<d", x))[0]


def fhex(x):
    return float(x).hex()


def cq(x):
    """Coq float literal"""
    x = float(x)
    if math.isinf(x): return "infinity" if x > 0 else "neg_infinity"
    if x == 0.0 and math.copysign(1, x) < 0: return "(-0)"
    return "(%s)" % x.hex()


class Space:
    def __init__(self, kind, **kw):
        self.kind = kind; self.__dict__.update(kw)

    def spec(self):
        k = self.kind
        if k == "RV": return "RV %d %s" % (len(self.bounds), " ".join("%s %s" % (fhex(l), fhex(h)) for l, h in self.bounds))
        if k == "SO2": return "SO2"
        if k == "TB": return "TB %s %s" % (fhex(self.lo), fhex(self.hi))
        if k == "TU": return "TU"
        if k == "DI": return "DI %s %s" % (fhex(self.lo), fhex(self.hi))
        return "CO %d %s" % (len(self.subs), " ".join("%s %s" % (fhex(w), s.spec()) for w, s in self.subs))

    def coq(self):
        k = self.kind
        if k == "RV": return "(RV FlA [%s])" % "; ".join("(%s, %s)" % (cq(l), cq(h)) for l, h in self.bounds)
        if k == "SO2": return "(SO2 FlA)"
        if k == "TB": return "(TimeB FlA %s %s)" % (cq(self.lo), cq(self.hi))
        if k == "TU": return "(TimeU FlA)"
        if k == "DI": return "(Disc FlA %s %s)" % (cq(self.lo), cq(self.hi))
        return "(Comp FlA [%s])" % "; ".join("(%s, %s)" % (cq(w), s.coq()) for w, s in self.subs)

    def nvals(self):
        if self.kind == "RV": return len(self.bounds)
        if self.kind == "CO": return sum(s.nvals() for _, s in self.subs)
        return 1

    def state_coq(self, vals):
        """vals: flat list -> Coq sv term"""
        it = iter(vals)
        def go(sp):
            if sp.kind == "CO": return "(C FlA [%s])" % "; ".join(go(s) for _, s in sp.subs)
            return "(L FlA [%s])" % "; ".join(cq(next(it)) for _ in range(sp.nvals()))
        return go(self)

    def leaf_kinds(self):
        if self.kind == "CO": return [k for _, t in self.subs for k in t.leaf_kinds()]
        return [self.kind] * self.nvals()

    def has(self, kind):
        return self.kind == kind or (self.kind == "CO" and any(s.has(kind) for _, s in self.subs))


def gen_space(rng, depth, unbounded=False):
    """unbounded: also generate R^n dimensions with bounds (-inf, +inf) (C06: extents of compounds with infinite components)"""
    r = rng.random()
    if depth == 0 or r < 0.5:
        k = rng.choice(["RV", "RV", "SO2", "SO2", "TB", "TU", "DI"])
        if k == "RV":
            n = rng.randint(1, 3); bs = []
            for _ in range(n):
                lo = rng.choice([-1.0, 0.0, -2.5, -1e3, 0.25]); w = rng.choice([1.0, 2.0, 0.0, 1e3, 0.5, 1e-9])
                if unbounded and rng.random() < 0.15: bs.append((float("-inf"), float("inf")))
                else: bs.append((lo, lo + w))
            return Space("RV", bounds=bs)
        if k == "TB":
            lo = rng.choice([0.0, -1.0, 2.0]); return Space("TB", lo=lo, hi=lo + rng.choice([1.0, 10.0, 0.0]))
        if k == "DI":
            lo = float(rng.randint(-3, 2)); return Space("DI", lo=lo, hi=lo + rng.randint(0, 6))
        return Space(k)
    n = rng.randint(1, 3)
    return Space("CO", subs=[(rng.choice([1.0, 0.5, 2.0, 0.0, 1e-3, 3.0]), gen_space(rng, depth - 1, unbounded)) for _ in range(n)])


def ulp_step(x, k):
    b = bits(abs(x)) + k
    return math.copysign(struct.unpack("<d", struct.pack("<Q", max(b, 0)))[0], x if x != 0 else 1)


def gen_vals(rng, sp, mode="in"):
    """flat values for a state: mode in (in bounds), seam (angles at/near +-pi, bounds' edges), out (far outside)"""
    out = []
    def go(s):
        if s.kind == "CO":
            for _, t in s.subs: go(t)
        elif s.kind == "RV":
            for lo, hi in s.bounds:
                if math.isinf(lo) or math.isinf(hi): out.append(rng.choice([0.0, 1.5, -2.25, rng.uniform(-5, 5)])); continue
                if mode == "out": out.append(rng.choice([lo - rng.uniform(0, 50), hi + rng.uniform(0, 50), rng.uniform(lo, hi)]))
                elif mode == "seam": out.append(rng.choice([lo, hi, (lo + hi) / 2]))
                else: out.append(lo + (hi - lo) * rng.random())
        elif s.kind == "SO2":
            if mode == "out": out.append(rng.choice([rng.uniform(-100, 100), 2 * PI, -2 * PI, 7 * PI, 1e6]))
            elif mode == "seam": out.append(rng.choice([-PI, ulp_step(PI, -1), 3.0, -3.0, ulp_step(-PI, -1), PI / 2, 0.0]))
            else: out.append(rng.uniform(-PI, ulp_step(PI, -1)))
        elif s.kind == "TB":
            if mode == "out": out.append(rng.choice([s.lo - 5.0, s.hi + 5.0]))
            elif mode == "seam": out.append(rng.choice([s.lo, s.hi]))
            else: out.append(s.lo + (s.hi - s.lo) * rng.random())
        elif s.kind == "TU": out.append(rng.uniform(-5, 5))
        elif s.kind == "DI":
            if mode == "out": out.append(float(rng.choice([int(s.lo) - 3, int(s.hi) + 4])))
            else: out.append(float(rng.randint(int(s.lo), int(s.hi))))
    go(sp)
    return out


def perturb(rng, sp, a):
    """a few ulps away from a, never leaving the bounds (angles move toward 0, reals are clamped, integers stay)"""
    out = []; it = iter(a)
    def go(s):
        if s.kind == "CO":
            for _, t in s.subs: go(t)
        elif s.kind == "RV":
            for lo, hi in s.bounds:
                x = next(it); y = ulp_step(x, rng.choice([1, -1, 3])) if x != 0 else x
                out.append(min(max(y, lo), hi))
        elif s.kind == "SO2":
            x = next(it); out.append(ulp_step(x, -rng.choice([1, 3])) if x != 0 else x)
        elif s.kind == "TB":
            x = next(it); y = ulp_step(x, rng.choice([1, -1, 3])) if x != 0 else x
            out.append(min(max(y, s.lo), s.hi))
        elif s.kind == "TU":
            x = next(it); out.append(ulp_step(x, rng.choice([1, -1, 3])) if x != 0 else x)
        else: out.append(next(it))
    go(sp)
    return out


TOK = re.compile(r"[\[\];]|[^\s\[\];]+")


def parse_nested(text):
    """value printed by `Eval vm_compute in (... : list (list (list float)))` -> nested python lists of floats"""
    toks = TOK.findall(text[text.index("["):text.rindex(":")])
    pos = 0
    def num(t):
        t = t.replace("%float", "")
        if t == "infinity": return float("inf")
        if t == "neg_infinity": return float("-inf")
        return float(t)
    def go():
        nonlocal pos
        assert toks[pos] == "["; pos += 1
        items = []
        while toks[pos] != "]":
            if toks[pos] == ";": pos += 1; continue
            if toks[pos] == "[": items.append(go())
            else: items.append(num(toks[pos])); pos += 1
        pos += 1
        return items
    return go()


def vals_hex(vals): return " ".join(fhex(v) for v in vals)


class Runner:
    """Collects (space, ops) groups, runs the implementation and the model, returns parallel result lists."""
    def __init__(self, check, drv):
        self.c = check; self.drv = drv; self.groups = []

    def add(self, sp, ops):
        """ops: list of (impl_line, coq_sop_term)"""
        self.groups.append((sp, ops))

    def run(self, tag):
        lines = []
        for sp, ops in self.groups:
            lines.append("SPACE " + sp.spec())
            lines += [o[0] for o in ops]
        rc, o, e, s = vf.sh([self.drv], input="\n".join(lines) + "\n", timeout=3000)
        self.c.step("correspond:impl", self.drv, s, rc == 0)
        out = o.split("\n")
        impl = []; k = 0
        for sp, ops in self.groups:
            k += 1
            impl.append(out[k:k + len(ops)] + [""] * max(0, len(ops) - len(out[k:k + len(ops)]))); k += len(ops)
        # model
        model = []
        t = 0.0
        shard = 60
        for a in range(0, len(self.groups), shard):
            part = self.groups[a:a + shard]
            src = "From Coq Require Import List Floats. From OmplV Require Import SpacesModel SpacesFloat SpacesRun. Import ListNotations.\nLocal Open Scope float_scope.\nEval vm_compute in [\n"
            src += ";\n".join("run_ops %s [%s]" % (sp.coq(), "; ".join(o[1] for o in ops if o[1] is not None)) for sp, ops in part) + "].\n"
            path = os.path.join(self.c.outdir, "cases_%s_%d.v" % (tag, a))
            open(path, "w").write(src)
            rc2, o2, e2, s2 = vf.sh("timeout 1500 coqc -Q %s OmplV %s" % (vf.COQ, path), timeout=1600)
            t += s2
            if rc2 != 0:
                self.c.broken.append("model evaluation (coqc %s) failed: %s" % (os.path.basename(path), (e2 or o2)[-300:])); break
            for (sp, ops), res in zip(part, parse_nested(o2)):
                it = iter(res)
                model.append([next(it) if o[1] is not None else None for o in ops])
        self.c.step("correspond:model", "coqc cases_%s_*.v (Eval vm_compute, PrimFloat instance)" % tag, t, not self.c.broken)
        return impl, model


def impl_bits(line):
    """'name hex hex ... [| flags]' -> (list of int bit patterns, flags list)"""
    main, _, fl = line.partition("|")
    w = main.split()
    return [int(x, 16) for x in w[1:]], fl.split()


def same_bits(ibits, mvals):
    return len(ibits) == len(mvals) and all(a == bits(b) for a, b in zip(ibits, mvals))
