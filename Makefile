# /verif top-level build: proofs, extracted model, libompl verification build.
SHELL := /bin/bash
COQ := coq
MODEL := build/model
DRIVERS := conv heap_driver motion_driver ptc_driver seed_driver sol_driver grid_driver nn_driver codec_driver vss_driver ledger_driver pis_driver path_driver control_driver phs_driver eit_driver gnatfull_driver rrt_driver lpa_driver
.PHONY: setup proofs model ompl clean
setup: proofs model ompl
proofs:
	cd $(COQ) && coq_makefile -f _CoqProject -o Makefile >/dev/null && timeout 3000 $(MAKE) -j16
model: $(MODEL)/ompl_model
MODELS := $(shell grep 'Model\.v$$' $(COQ)/_CoqProject)
$(MODEL)/ompl_model: $(COQ)/Extract.v $(addprefix $(COQ)/,$(MODELS)) $(wildcard extract/*.ml)
	mkdir -p $(MODEL)
	cd $(COQ) && ( test -f Makefile || coq_makefile -f _CoqProject -o Makefile >/dev/null ) && timeout 3000 $(MAKE) -j16 $(MODELS:.v=.vo)
	cd $(MODEL) && coqc -Q $(CURDIR)/$(COQ) OmplV -o $(CURDIR)/$(MODEL)/Extract.vo $(CURDIR)/$(COQ)/Extract.v >/dev/null
	cp extract/*.ml $(MODEL)/
	cd $(MODEL) && ocamlfind ocamlopt -w -a -O2 model.mli model.ml $(addsuffix .ml,$(DRIVERS)) main.ml -o ompl_model.new 2>/dev/null || \
	  (cd $(CURDIR)/$(MODEL) && ocamlfind ocamlopt -w -a model.mli model.ml $(addsuffix .ml,$(DRIVERS)) main.ml -o ompl_model.new)
	mv -f $(MODEL)/ompl_model.new $(MODEL)/ompl_model
ompl:
	mkdir -p build
	test -f build/ompl/build.ninja || cmake -G Ninja -S /repo -B build/ompl -DCMAKE_BUILD_TYPE=Release -DCMAKE_CXX_FLAGS="-O1 -ffp-contract=off -Wno-error -DOMPL_VERIF" -DOMPL_BUILD_TESTS=OFF -DOMPL_BUILD_DEMOS=OFF -DOMPL_BUILD_PYBINDINGS=OFF -DOMPL_BUILD_PYTESTS=OFF -DOMPL_REGISTRATION=OFF -DOMPL_VERSIONED_INSTALL=OFF > build/cmake.log 2>&1
	ninja -C build/ompl ompl > build/ninja.log 2>&1 || (tail -50 build/ninja.log; false)
clean:
	rm -rf build; cd $(COQ) && rm -f *.vo *.vok *.vos *.glob .*.aux Makefile Makefile.conf .Makefile.d
