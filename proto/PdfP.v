From Coq Require Import List Arith Lia Bool Reals Lra.
Import ListNotations.
Open Scope R_scope.

Fixpoint pairsums (r : list R) : list R :=
  match r with
  | a :: t => match t with b :: t' => (a + b) :: pairsums t' | [] => [a] end
  | [] => []
  end.
Definition getw (r : list R) (i : nat) : R := nth i r 0.
Fixpoint prefix (r : list R) (i : nat) : R :=   (* sum of the first i entries *)
  match r with
  | [] => 0
  | a :: t => match i with O => 0 | S j => a + prefix t j end
  end.

Lemma pairsums_ind (P : list R -> Prop) :
  P [] -> (forall a, P [a]) -> (forall a b t, P t -> P (a :: b :: t)) -> forall l, P l.
Proof.
  intros H0 H1 H2. fix IH 1. intros [|a [|b t]]; [exact H0|apply H1|apply H2; apply IH].
Qed.

Lemma prefix_pairsums r : forall j, prefix (pairsums r) j = prefix r (2 * j).
Proof.
  induction r as [| a | a b t IH] using pairsums_ind; intros [|j]; simpl; try lra.
  replace (j + S (j + 0))%nat with (S (2 * j)) by lia. rewrite IH. lra.
Qed.

Lemma getw_pairsums r : forall j, getw (pairsums r) j = getw r (2 * j) + getw r (2 * j + 1).
Proof.
  unfold getw. induction r as [| a | a b t IH] using pairsums_ind; intros [|j]; simpl; try lra.
  - assert (Z : forall n : nat, match n with 0%nat | _ => 0 end = 0) by (intros []; reflexivity). rewrite !Z. lra.
  - replace (j + S (j + 0))%nat with (S (2 * j)) by lia.
    replace (S (2 * j) + 1)%nat with (S (S (2 * j))) by lia. rewrite IH.
    replace (2 * j + 1)%nat with (S (2 * j)) by lia. reflexivity.
Qed.

Lemma prefix_S r : forall i, prefix r (S i) = prefix r i + getw r i.
Proof.
  unfold getw. induction r as [|a t IH]; intros i; simpl.
  - destruct i; lra.
  - destruct i as [|i]; [destruct t; simpl; lra|]. rewrite IH. lra.
Qed.

(* one descent step of PDF::sample, PDF.h:141-150, on the row below *)
Definition step (row : list R) (st : R * nat) : R * nat :=
  let '(rho, node) := st in
  let node := (2 * node)%nat in
  if Rlt_dec (getw row node) rho then (rho - getw row node, S node) else (rho, node).
(* rows_down: the rows below the top, from just below the top down to the leaves *)
Definition descend (rows_down : list (list R)) (st : R * nat) : R * nat := fold_left (fun s row => step row s) rows_down st.

(* chain: each row is the pairsums of the next one *)
Fixpoint chain (upper : list R) (rows_down : list (list R)) : Prop :=
  match rows_down with
  | [] => True
  | r :: rest => upper = pairsums r /\ chain r rest
  end.

Definition Good (row : list R) (target : R) (st : R * nat) : Prop :=
  let '(rho, node) := st in prefix row node + rho = target /\ 0 < rho <= getw row node.

Lemma step_good upper row target st :
  upper = pairsums row -> Good upper target st -> Good row target (step row st).
Proof.
  intros -> G. destruct st as [rho node]. unfold Good in *. destruct G as (Hp & Hr).
  rewrite prefix_pairsums in Hp. rewrite getw_pairsums in Hr. unfold step.
  destruct (Rlt_dec (getw row (2 * node)) rho) as [L|L].
  - rewrite prefix_S. replace (2 * node + 1)%nat with (S (2 * node)) in Hr by lia. split; lra.
  - split; lra.
Qed.

Lemma last_cons_irrel {A} (x : A) l a b : last (x :: l) a = last (x :: l) b.
Proof. revert x; induction l as [|y l IH]; intros x; [reflexivity|]. change (last (y :: l) a = last (y :: l) b). apply IH. Qed.

Lemma descend_good : forall rows_down upper target st,
  chain upper rows_down -> Good upper target st ->
  Good (last rows_down upper) target (descend rows_down st).
Proof.
  induction rows_down as [|r rest IH]; intros upper target st C G; [exact G|].
  destruct C as (E & C). specialize (IH r target (step r st) C (step_good _ _ _ _ E G)).
  unfold descend in *. cbn [fold_left].
  destruct rest as [|r' rest']; [exact IH|].
  change (last (r :: r' :: rest') upper) with (last (r' :: rest') upper).
  rewrite (last_cons_irrel r' rest' upper r). exact IH.
Qed.

(* the theorem: PDF::sample picks the element whose cumulative interval contains r*W *)
Theorem sample_selects_prefix_interval (top : R) (rows_down : list (list R)) (r : R) :
  chain [top] rows_down -> 0 < r <= 1 -> 0 < top ->
  let leaves := last rows_down [top] in
  let i := snd (descend rows_down (r * top, 0%nat)) in
  prefix leaves i < r * top <= prefix leaves (S i).
Proof.
  intros C Hr Ht leaves i.
  assert (G : Good [top] (r * top) (r * top, 0%nat)).
  { unfold Good, getw. simpl. split; [lra|]. split; [nra|nra]. }
  pose proof (descend_good rows_down [top] (r * top) _ C G) as D.
  fold leaves in D. subst i. destruct (descend rows_down (r * top, 0%nat)) as [rho node].
  cbn [snd]. unfold Good in D. destruct D as (Hp & Hrho).
  rewrite prefix_S. lra.
Qed.

Corollary zero_weight_never_drawn top rows_down r :
  chain [top] rows_down -> 0 < r <= 1 -> 0 < top ->
  getw (last rows_down [top]) (snd (descend rows_down (r * top, 0%nat))) <> 0.
Proof.
  intros C Hr Ht. pose proof (sample_selects_prefix_interval top rows_down r C Hr Ht) as H. cbv zeta in H.
  rewrite prefix_S in H. lra.
Qed.
Print Assumptions sample_selects_prefix_interval.
