From Coq Require Import List Arith Lia Bool.
Import ListNotations.

Section Heap.
  Variable K : Type.
  Variable lt : K -> K -> bool.
  Definition le x y := negb (lt y x).
  Hypothesis le_total : forall x y, le x y = true \/ le y x = true.
  Hypothesis le_trans : forall x y z, le x y = true -> le y z = true -> le x z = true.

  Variable d : K.
  Definition get (v : list K) (i : nat) : K := nth i v d.
  Fixpoint upd (i : nat) (x : K) (v : list K) : list K :=
    match v, i with
    | [], _ => []
    | _ :: t, 0 => x :: t
    | h :: t, S j => h :: upd j x t
    end.
  Lemma length_upd i x v : length (upd i x v) = length v.
  Proof. revert i; induction v as [|h t IH]; intros [|i]; simpl; auto. Qed.
  Lemma get_upd_eq i x v : i < length v -> get (upd i x v) i = x.
  Proof. revert i; induction v as [|h t IH]; intros [|i] H; simpl in *; try lia; auto. apply IH; lia. Qed.
  Lemma get_upd_ne i j x v : i <> j -> get (upd i x v) j = get v j.
  Proof. revert i j; induction v as [|h t IH]; intros [|i] [|j] H; simpl in *; auto; try lia. apply IH; lia. Qed.

  Definition par (i : nat) := (i - 1) / 2.
  Lemma par_lt i : 0 < i -> par i < i.
  Proof. intros. unfold par. apply Nat.div_lt_upper_bound; lia. Qed.
  Lemma par_child i c : 0 < c -> par c = i <-> (c = 2 * i + 1 \/ c = 2 * i + 2).
  Proof.
    intros Hc. unfold par. split.
    - intros H. pose proof (Nat.div_mod (c - 1) 2 ltac:(lia)) as E. rewrite H in E.
      pose proof (Nat.mod_upper_bound (c - 1) 2 ltac:(lia)). lia.
    - intros [->| ->].
      + replace (2 * i + 1 - 1) with (i * 2) by lia. apply Nat.div_mul; lia.
      + replace (2 * i + 2 - 1) with (1 + i * 2) by lia. rewrite Nat.div_add by lia. reflexivity.
  Qed.

  Definition ord (v : list K) (i : nat) : Prop := le (get v (par i)) (get v i) = true.
  Definition HeapOrder (v : list K) : Prop := forall i, 0 < i < length v -> ord v i.

  (* ---------- percolateUp (hole technique) ---------- *)
  Fixpoint pu_loop (fuel : nat) (v : list K) (tmp : K) (child : nat) : list K * nat :=
    match fuel with
    | 0 => (v, child)
    | S f =>
      if (0 <? child) && lt tmp (get v (par child))
      then pu_loop f (upd child (get v (par child)) v) tmp (par child)
      else (v, child)
    end.
  Definition percolateUp (pos : nat) (v : list K) : list K :=
    let tmp := get v pos in
    let '(v', h) := pu_loop (length v) v tmp pos in
    if h =? pos then v' else upd h tmp v'.

  (* virtual array: what the array would be with tmp dropped in the hole *)
  (* UpInv w h: all order constraints hold except possibly (h, par h); children of h dominate par h *)
  Definition UpInv (w : list K) (h : nat) : Prop :=
    h < length w /\
    (forall i, 0 < i < length w -> i <> h -> ord w i) /\
    (forall c, c < length w -> 0 < c -> par c = h -> 0 < h -> le (get w (par h)) (get w c) = true).

  Lemma lt_le x y : lt x y = true -> le x y = true.
  Proof. intros H. unfold le. destruct (le_total x y) as [E|E]; unfold le in E; auto. rewrite H in E. discriminate. Qed.
  Lemma nlt_le x y : lt x y = false -> le y x = true.
  Proof. unfold le. intros ->. reflexivity. Qed.

  Lemma pu_loop_spec fuel : forall v tmp h,
    h <= fuel -> UpInv (upd h tmp v) h -> length v = length (upd h tmp v) ->
    let '(v', h') := pu_loop fuel v tmp h in
    length v' = length v /\ h' < length v /\ HeapOrder (upd h' tmp v').
  Proof.
    induction fuel as [|f IH]; intros v tmp h Hf Inv _.
    - assert (h = 0) by lia. subst. cbn [pu_loop]. destruct Inv as (Hl & Ho & _). rewrite length_upd in Hl.
      split; [reflexivity|]. split; [exact Hl|]. intros i Hi. apply Ho; [exact Hi|]. lia.
    - cbn [pu_loop]. destruct Inv as (Hl & Ho & Hb). rewrite length_upd in Hl.
      destruct (0 <? h) eqn:Eh; cbn [andb].
      + apply Nat.ltb_lt in Eh.
        destruct (lt tmp (get v (par h))) eqn:Elt.
        * (* move parent down, hole goes up *)
          set (p := par h). assert (Hp : p < h) by (apply par_lt; auto).
          set (v1 := upd h (get v p) v).
          specialize (IH v1 tmp p ltac:(lia)).
          assert (Lv1 : length v1 = length v) by apply length_upd.
          assert (G : forall j, get (upd p tmp v1) j = if j =? p then tmp else if j =? h then get v p else get v j).
          { intros j. destruct (Nat.eqb_spec j p) as [->|N1]. rewrite get_upd_eq; auto; lia.
            rewrite get_upd_ne by lia. unfold v1. destruct (Nat.eqb_spec j h) as [->|N2]. rewrite get_upd_eq; auto. rewrite get_upd_ne by lia. reflexivity. }
          assert (G0 : forall j, get (upd h tmp v) j = if j =? h then tmp else get v j).
          { intros j. destruct (Nat.eqb_spec j h) as [->|N]. rewrite get_upd_eq; auto. rewrite get_upd_ne by lia. reflexivity. }
          destruct (pu_loop f v1 tmp p) as [v' h'] eqn:E.
          assert (R : length v' = length v1 /\ h' < length v1 /\ HeapOrder (upd h' tmp v')).
          { apply IH; [|rewrite length_upd; reflexivity].
            unfold UpInv. rewrite length_upd, Lv1. split; [lia|]. split.
            - intros i Hi Nip. unfold ord. rewrite !G.
              destruct (Nat.eqb_spec i p); [lia|].
              destruct (Nat.eqb_spec i h) as [->|Nih].
              + (* ord at h: parent is p holding tmp; tmp < old v[p] *)
                fold p. rewrite Nat.eqb_refl. apply lt_le. exact Elt.
              + destruct (Nat.eqb_spec (par i) p) as [Epi|Npi].
                * (* i is the sibling of h: v[i] >= v[p] > tmp *)
                  assert (Oi : ord (upd h tmp v) i) by (apply Ho; [rewrite length_upd; lia|lia]).
                  unfold ord in Oi. rewrite !G0 in Oi. rewrite Epi in Oi.
                  destruct (Nat.eqb_spec p h); [lia|]. destruct (Nat.eqb_spec i h); [lia|].
                  eapply le_trans; [apply lt_le; exact Elt|exact Oi].
                * destruct (Nat.eqb_spec (par i) h) as [Eph|Nph].
                  -- (* i is a child of h: bridging gives v[i] >= v[p] *)
                     specialize (Hb i). rewrite length_upd in Hb. specialize (Hb ltac:(lia) ltac:(lia) Eph Eh).
                     rewrite !G0 in Hb. fold p in Hb. destruct (Nat.eqb_spec p h); [lia|]. destruct (Nat.eqb_spec i h); [lia|]. exact Hb.
                  -- assert (Oi : ord (upd h tmp v) i) by (apply Ho; [rewrite length_upd; lia|lia]).
                     unfold ord in Oi. rewrite !G0 in Oi.
                     destruct (Nat.eqb_spec (par i) h); [lia|]. destruct (Nat.eqb_spec i h); [lia|]. exact Oi.
            - intros c Hc Hc0 Hpc Hp0. rewrite !G.
              destruct (Nat.eqb_spec (par p) p) as [E1|_]; [pose proof (par_lt p Hp0); lia|].
              destruct (Nat.eqb_spec (par p) h) as [E1|_]; [pose proof (par_lt p Hp0); lia|].
              destruct (Nat.eqb_spec c p) as [->|Ncp]; [pose proof (par_lt p Hp0); lia|].
              assert (Op : ord (upd h tmp v) p) by (apply Ho; [rewrite length_upd; lia|lia]).
              unfold ord in Op. rewrite !G0 in Op.
              destruct (Nat.eqb_spec (par p) h) as [E1|_]; [pose proof (par_lt p Hp0); lia|].
              destruct (Nat.eqb_spec p h); [lia|].
              destruct (Nat.eqb_spec c h) as [->|Nch]; [exact Op|].
              (* c is the sibling: v[c] >= v[p] >= v[par p] *)
              assert (Oc : ord (upd h tmp v) c) by (apply Ho; [rewrite length_upd; lia|lia]).
              unfold ord in Oc. rewrite !G0 in Oc. rewrite Hpc in Oc.
              destruct (Nat.eqb_spec p h); [lia|]. destruct (Nat.eqb_spec c h); [lia|].
              eapply le_trans; eauto. }
          destruct R as (R1 & R2 & R3). rewrite Lv1 in *. auto.
        * (* stop: tmp >= parent *)
          split; [reflexivity|]. split; [exact Hl|]. intros i Hi.
          destruct (Nat.eq_dec i h) as [->|N]; [|apply Ho; [exact Hi|lia]]. rewrite length_upd in Hi.
          unfold ord. rewrite get_upd_eq by lia. rewrite get_upd_ne by (pose proof (par_lt h Eh); lia).
          apply nlt_le. exact Elt.
      + apply Nat.ltb_ge in Eh. assert (h = 0) by lia. subst.
        split; [reflexivity|]. split; [exact Hl|]. intros i Hi. apply Ho; [exact Hi|lia].
  Qed.

  (* ---------- percolateDown (hole technique) ---------- *)
  Fixpoint pd_loop (fuel : nat) (v : list K) (tmp : K) (parent : nat) : list K * nat :=
    match fuel with
    | 0 => (v, parent)
    | S f =>
      let n := length v in
      let child := 2 * parent + 2 in
      if child <? n then
        let c := if lt (get v (child - 1)) (get v child) then child - 1 else child in
        if lt (get v c) tmp then pd_loop f (upd parent (get v c) v) tmp c else (v, parent)
      else if child =? n then
        let c := child - 1 in
        if lt (get v c) tmp then (upd parent (get v c) v, c) else (v, parent)
      else (v, parent)
    end.

  Definition DownInv (w : list K) (h : nat) : Prop :=
    h < length w /\
    (forall i, 0 < i < length w -> par i <> h -> ord w i) /\
    (forall c, c < length w -> 0 < c -> par c = h -> 0 < h -> le (get w (par h)) (get w c) = true).

  Lemma le_refl x : le x x = true.
  Proof. destruct (le_total x x); auto. Qed.

  (* one move: child c of h goes up, hole goes to c *)
  Lemma pd_move v tmp h c :
    DownInv (upd h tmp v) h -> c < length v -> par c = h -> 0 < c ->
    lt (get v c) tmp = true ->
    (forall s, s < length v -> 0 < s -> par s = h -> le (get v c) (get v s) = true) ->
    DownInv (upd c tmp (upd h (get v c) v)) c.
  Proof.
    intros (Hl & Ho & Hb) Hc Hpc Hc0 Hlt Hmin. rewrite length_upd in Hl.
    assert (Hhc : h < c) by (rewrite <- Hpc; apply par_lt; auto).
    set (v1 := upd h (get v c) v).
    assert (G : forall j, get (upd c tmp v1) j = if j =? c then tmp else if j =? h then get v c else get v j).
    { intros j. destruct (Nat.eqb_spec j c) as [->|N1]. rewrite get_upd_eq; auto. unfold v1; rewrite length_upd; lia.
      rewrite get_upd_ne by lia. unfold v1. destruct (Nat.eqb_spec j h) as [->|N2]. rewrite get_upd_eq; auto. rewrite get_upd_ne by lia. reflexivity. }
    assert (G0 : forall j, get (upd h tmp v) j = if j =? h then tmp else get v j).
    { intros j. destruct (Nat.eqb_spec j h) as [->|N]. rewrite get_upd_eq; auto. rewrite get_upd_ne by lia. reflexivity. }
    assert (Lv1 : length v1 = length v) by apply length_upd.
    unfold DownInv. rewrite !length_upd, !Lv1. split; [lia|]. split.
    - intros i Hi Npc. unfold ord. rewrite !G.
      destruct (Nat.eqb_spec (par i) c); [lia|].
      destruct (Nat.eqb_spec i c) as [->|Nic].
      + (* i = c: parent is h, now holding v[c]; v[c] < tmp *)
        rewrite Hpc, Nat.eqb_refl. apply lt_le. exact Hlt.
      + destruct (Nat.eqb_spec i h) as [->|Nih].
        * (* i = h: bridging *)
          assert (Pph : par h < h) by (apply par_lt; lia).
          destruct (Nat.eqb_spec (par h) h) as [E|_]; [lia|].
          specialize (Hb c). rewrite length_upd in Hb. specialize (Hb Hc Hc0 Hpc ltac:(lia)).
          rewrite !G0 in Hb. destruct (Nat.eqb_spec (par h) h); [lia|]. destruct (Nat.eqb_spec c h); [lia|]. exact Hb.
        * destruct (Nat.eqb_spec (par i) h) as [Eph|Nph].
          -- (* other child of h *) apply Hmin; lia.
          -- assert (Oi : ord (upd h tmp v) i) by (apply Ho; [rewrite length_upd; lia|lia]).
             unfold ord in Oi. rewrite !G0 in Oi.
             destruct (Nat.eqb_spec (par i) h); [lia|]. destruct (Nat.eqb_spec i h); [lia|]. exact Oi.
    - intros cc Hcc Hcc0 Hpcc _. rewrite !G.
      assert (c < cc) by (rewrite <- Hpcc; apply par_lt; auto).
      rewrite Hpc. destruct (Nat.eqb_spec h c); [lia|]. rewrite Nat.eqb_refl.
      destruct (Nat.eqb_spec cc c); [lia|]. destruct (Nat.eqb_spec cc h); [lia|].
      assert (Oi : ord (upd h tmp v) cc) by (apply Ho; [rewrite length_upd; lia|lia]).
      unfold ord in Oi. rewrite !G0 in Oi. rewrite Hpcc in Oi.
      destruct (Nat.eqb_spec c h); [lia|]. destruct (Nat.eqb_spec cc h); [lia|]. exact Oi.
  Qed.

  (* stop: tmp is dominated by every child of h *)
  Lemma pd_stop v tmp h :
    DownInv (upd h tmp v) h ->
    (forall s, s < length v -> 0 < s -> par s = h -> le tmp (get v s) = true) ->
    HeapOrder (upd h tmp v).
  Proof.
    intros (Hl & Ho & Hb) Hch i Hi. rewrite length_upd in Hl, Hi.
    destruct (Nat.eq_dec (par i) h) as [E|N]; [|apply Ho; [rewrite length_upd; lia|exact N]].
    unfold ord. rewrite E. rewrite get_upd_eq by lia.
    assert (h < i) by (rewrite <- E; apply par_lt; lia).
    rewrite get_upd_ne by lia. apply Hch; lia.
  Qed.

  Lemma pd_loop_spec fuel : forall v tmp h,
    length v - h <= fuel -> DownInv (upd h tmp v) h ->
    let '(v', h') := pd_loop fuel v tmp h in
    length v' = length v /\ h' < length v /\ HeapOrder (upd h' tmp v').
  Proof.
    induction fuel as [|f IH]; intros v tmp h Hf Inv.
    - destruct Inv as (Hl & _). rewrite length_upd in Hl. lia.
    - cbn [pd_loop]. pose proof Inv as (Hl & Ho & Hb). rewrite length_upd in Hl.
      destruct (2 * h + 2 <? length v) eqn:E1.
      + apply Nat.ltb_lt in E1.
        set (l := 2 * h + 2 - 1). assert (Hlv : l = 2 * h + 1) by (unfold l; lia).
        assert (Pl : par l = h) by (apply par_child; lia).
        assert (Pr : par (2 * h + 2) = h) by (apply par_child; lia).
        assert (Kids : forall s, 0 < s -> par s = h -> s = l \/ s = 2 * h + 2).
        { intros s Hs Hp. apply par_child in Hp; auto. lia. }
        destruct (lt (get v l) (get v (2 * h + 2))) eqn:Ecmp.
        * (* left child is the smaller one *)
          destruct (lt (get v l) tmp) eqn:Elt.
          -- assert (D : DownInv (upd l tmp (upd h (get v l) v)) l).
             { apply pd_move; auto; try lia. intros s Hs Hs0 Hps. destruct (Kids s Hs0 Hps) as [->| ->]; [apply le_refl|apply lt_le; exact Ecmp]. }
             specialize (IH (upd h (get v l) v) tmp l). rewrite length_upd in IH. specialize (IH ltac:(lia) D).
             destruct (pd_loop f (upd h (get v l) v) tmp l) as [v' h']. exact IH.
          -- split; [reflexivity|]. split; [exact Hl|]. apply pd_stop; auto.
             intros s Hs Hs0 Hps. destruct (Kids s Hs0 Hps) as [->| ->]; [apply nlt_le; exact Elt|].
             eapply le_trans; [apply nlt_le; exact Elt|apply lt_le; exact Ecmp].
        * (* right child is not larger *)
          destruct (lt (get v (2 * h + 2)) tmp) eqn:Elt.
          -- assert (D : DownInv (upd (2*h+2) tmp (upd h (get v (2*h+2)) v)) (2*h+2)).
             { apply pd_move; auto; try lia. intros s Hs Hs0 Hps. destruct (Kids s Hs0 Hps) as [->| ->]; [apply nlt_le; exact Ecmp|apply le_refl]. }
             specialize (IH (upd h (get v (2*h+2)) v) tmp (2*h+2)). rewrite length_upd in IH. specialize (IH ltac:(lia) D).
             destruct (pd_loop f (upd h (get v (2*h+2)) v) tmp (2*h+2)) as [v' h']. exact IH.
          -- split; [reflexivity|]. split; [exact Hl|]. apply pd_stop; auto.
             intros s Hs Hs0 Hps. destruct (Kids s Hs0 Hps) as [->| ->]; [|apply nlt_le; exact Elt].
             eapply le_trans; [apply nlt_le; exact Elt|apply nlt_le; exact Ecmp].
      + apply Nat.ltb_ge in E1.
        destruct (2 * h + 2 =? length v) eqn:E2.
        * apply Nat.eqb_eq in E2.
          set (l := 2 * h + 2 - 1). assert (Hlv : l = 2 * h + 1) by (unfold l; lia).
          assert (Pl : par l = h) by (apply par_child; lia).
          assert (Kids : forall s, s < length v -> 0 < s -> par s = h -> s = l).
          { intros s Hsl Hs Hp. apply par_child in Hp; auto. lia. }
          destruct (lt (get v l) tmp) eqn:Elt.
          -- rewrite length_upd. split; [reflexivity|]. split; [lia|].
             assert (D : DownInv (upd l tmp (upd h (get v l) v)) l).
             { apply pd_move; auto; try lia. intros s Hs Hs0 Hps. rewrite (Kids s Hs Hs0 Hps). apply le_refl. }
             apply pd_stop; auto. intros s Hs Hs0 Hps. rewrite length_upd in Hs.
             apply par_child in Hps; lia.
          -- split; [reflexivity|]. split; [exact Hl|]. apply pd_stop; auto.
             intros s Hs Hs0 Hps. rewrite (Kids s Hs Hs0 Hps). apply nlt_le; exact Elt.
        * apply Nat.eqb_neq in E2.
          split; [reflexivity|]. split; [exact Hl|]. apply pd_stop; auto.
          intros s Hs Hs0 Hps. apply par_child in Hps; lia.
  Qed.
End Heap.
Check pd_loop_spec.
Print Assumptions pd_loop_spec.
