From Coq Require Import List ZArith Lia Bool.
Import ListNotations.
Open Scope Z_scope.

Section Bis.
  Variable valid : Z -> bool.
  (* DiscreteMotionValidator.cpp:109-131: queue of closed intervals, check the middle, push halves *)
  Fixpoint bis (fuel : nat) (q : list (Z * Z)) (visited : list Z) : bool * list Z :=
    match fuel with
    | O => (true, visited)   (* out of fuel: excluded by the theorem *)
    | S f =>
      match q with
      | [] => (true, visited)
      | (a, b) :: rest =>
        let mid := (a + b) / 2 in
        if valid mid then
          bis f (rest ++ (if a <? mid then [(a, mid - 1)] else []) ++ (if mid <? b then [(mid + 1, b)] else []))
              (visited ++ [mid])
        else (false, visited ++ [mid])
      end
    end.

  Definition size (q : list (Z * Z)) : Z := fold_right (fun '(a, b) s => (b - a + 1) + s) 0 q.
  Definition wf (q : list (Z * Z)) := Forall (fun '(a, b) => a <= b) q.
  Definition covers (q : list (Z * Z)) (j : Z) := Exists (fun '(a, b) => a <= j <= b) q.

  Lemma size_app q1 q2 : size (q1 ++ q2) = size q1 + size q2.
  Proof. induction q1 as [|[a b] t IH]; simpl; lia. Qed.
  Lemma size_nonneg q : wf q -> 0 <= size q.
  Proof. induction 1 as [|[a b] t H _ IH]; simpl; lia. Qed.

  Theorem bis_true_iff fuel : forall q vis, wf q -> size q <= Z.of_nat fuel ->
    (fst (bis fuel q vis) = true <-> forall j, covers q j -> valid j = true).
  Proof.
    induction fuel as [|f IH]; intros q vis Hwf Hsz.
    - destruct q as [|[a b] t]; simpl.
      + split; auto. intros _ j Hc. inversion Hc.
      + exfalso. inversion Hwf; subst. pose proof (size_nonneg t H2). simpl in Hsz. lia.
    - destruct q as [|[a b] t]; cbn [bis].
      + simpl. split; auto. intros _ j Hc. inversion Hc.
      + inversion Hwf as [|x l Hab Ht]; subst.
        set (mid := (a + b) / 2).
        assert (Hmid : a <= mid <= b) by (unfold mid; split; [apply Z.div_le_lower_bound|apply Z.div_le_upper_bound]; lia).
        destruct (valid mid) eqn:Hv.
        * rewrite IH.
          -- split; intros H j Hc.
             ++ apply Exists_cons in Hc. destruct Hc as [Hc|Hc].
                ** destruct (Z.eq_dec j mid) as [->|Hne]; auto.
                   apply H. unfold covers. rewrite !Exists_app. right.
                   destruct (Z_lt_dec j mid).
                   --- left. destruct (a <? mid) eqn:E; [constructor; lia | apply Z.ltb_ge in E; lia].
                   --- right. destruct (mid <? b) eqn:E; [constructor; lia | apply Z.ltb_ge in E; lia].
                ** apply H. unfold covers. rewrite Exists_app. now left.
             ++ unfold covers in Hc. rewrite !Exists_app in Hc. destruct Hc as [Hc|[Hc|Hc]].
                ** apply H. now apply Exists_cons_tl.
                ** destruct (a <? mid); inversion Hc as [? ? Hj|? ? Hj]; subst; [|inversion Hj]. apply H. constructor. lia.
                ** destruct (mid <? b); inversion Hc as [? ? Hj|? ? Hj]; subst; [|inversion Hj]. apply H. constructor. lia.
          -- unfold wf. rewrite !Forall_app. split; [exact Ht|split].
             ++ destruct (a <? mid) eqn:E; constructor; auto. apply Z.ltb_lt in E. lia.
             ++ destruct (mid <? b) eqn:E; constructor; auto. apply Z.ltb_lt in E. lia.
          -- rewrite !size_app. simpl in Hsz.
             destruct (a <? mid) eqn:E1; destruct (mid <? b) eqn:E2; simpl;
               try apply Z.ltb_ge in E1; try apply Z.ltb_ge in E2; lia.
        * simpl. split; [discriminate|]. intros H. rewrite H in Hv; [discriminate|]. constructor. lia.
  Qed.
End Bis.
Print Assumptions bis_true_iff.
Eval vm_compute in bis (fun _ => true) 20 [(1,9)] [].
