From Coq Require Import List ZArith Lia Bool.
Import ListNotations.
Open Scope Z_scope.

Section Prune.
  Variable P : Type.
  Variable d : P -> P -> Z.
  Hypothesis d_nonneg : forall x y, 0 <= d x y.
  Hypothesis d_sym : forall x y, d x y = d y x.
  Hypothesis d_tri : forall x y z, d x z <= d x y + d y z.

  (* range table of sibling i about the elements of sibling j's subtree: lo <= d(p_i, x) <= hi *)
  Definition conservative (pi : P) (lo hi : Z) (elems : list P) : Prop :=
    forall x, In x elems -> lo <= d pi x <= hi.

  (* NearestNeighborsGNAT.h:596-599 / 648-651: prune sibling j using pivot i *)
  Definition pruned (dqp tau lo hi : Z) : bool := (hi <? dqp - tau) || (dqp + tau <? lo).

  Lemma prune_sound q pi lo hi elems tau :
    conservative pi lo hi elems -> pruned (d q pi) tau lo hi = true ->
    forall x, In x elems -> tau < d q x.
  Proof.
    intros C Hp x Hx. specialize (C x Hx). unfold pruned in Hp.
    apply orb_true_iff in Hp. destruct Hp as [H|H]; apply Z.ltb_lt in H.
    - pose proof (d_tri q x pi). rewrite (d_sym x pi) in *. lia.
    - pose proof (d_tri pi q x). rewrite (d_sym pi q) in *. lia.
  Qed.

  (* node-level test, :350-351 / :608-609, same shape with [minRadius,maxRadius] about the node's own pivot *)
  Lemma radius_prune_sound q p rmin rmax elems tau :
    conservative p rmin rmax elems ->
    (d q p >? rmax + tau) || (d q p <? rmin - tau) = true ->
    forall x, In x elems -> tau < d q x.
  Proof.
    intros C Hp x Hx. specialize (C x Hx).
    apply orb_true_iff in Hp. destruct Hp as [H|H].
    - apply Z.gtb_lt in H. pose proof (d_tri q x p). rewrite (d_sym x p) in *. lia.
    - apply Z.ltb_lt in H. pose proof (d_tri p q x). rewrite (d_sym p q) in *. lia.
  Qed.

  (* updateRange / updateRadius keep the table conservative when an element is added *)
  Lemma update_conservative pi lo hi elems x :
    conservative pi lo hi elems ->
    conservative pi (Z.min lo (d pi x)) (Z.max hi (d pi x)) (x :: elems).
  Proof. intros C y [<-|Hy]; [lia|]. specialize (C y Hy). lia. Qed.
End Prune.
Print Assumptions prune_sound.
