From Coq Require Import List Reals Lra.
Import ListNotations.
Open Scope R_scope.

Fixpoint dot (u v : list R) : R :=
  match u, v with a :: u', b :: v' => a * b + dot u' v' | _, _ => 0 end.
Fixpoint lin (t : R) (u v : list R) : list R :=   (* t*u + v, truncated to the shorter *)
  match u, v with a :: u', b :: v' => (t * a + b) :: lin t u' v' | _, _ => [] end.

Lemma dot_self_nonneg u : 0 <= dot u u.
Proof. induction u as [|a u IH]; simpl; [lra|]. pose proof (Rle_0_sqr a). unfold Rsqr in *. lra. Qed.

Lemma expand t u : forall v, length u = length v ->
  dot (lin t u v) (lin t u v) = t * t * dot u u + 2 * t * dot u v + dot v v.
Proof.
  induction u as [|a u IH]; intros [|b v] L; simpl in *; try discriminate; [ring|].
  injection L as L. rewrite (IH v L). ring.
Qed.

Lemma cauchy_schwarz u v : length u = length v -> dot u v * dot u v <= dot u u * dot v v.
Proof.
  intros L. set (X := dot u u). set (Y := dot v v). set (S := dot u v).
  assert (HX : 0 <= X) by apply dot_self_nonneg.
  assert (HY : 0 <= Y) by apply dot_self_nonneg.
  assert (Q : forall t, 0 <= t * t * X + 2 * t * S + Y).
  { intros t. unfold X, Y, S. rewrite <- (expand t u v L). apply dot_self_nonneg. }
  destruct (Req_dec X 0) as [E|N].
  - (* X = 0: then S = 0 *)
    rewrite E in *. destruct (Req_dec S 0) as [->|NS]; [lra|].
    specialize (Q (- (Y + 1) / (2 * S))). exfalso.
    replace (- (Y + 1) / (2 * S) * (- (Y + 1) / (2 * S)) * 0 + 2 * (- (Y + 1) / (2 * S)) * S + Y) with (-1) in Q by (field; exact NS). lra.
  - assert (0 < X) by lra. specialize (Q (- S / X)).
    replace (- S / X * (- S / X) * X + 2 * (- S / X) * S + Y) with (Y - S * S / X) in Q by (field; lra).
    assert (S * S / X <= Y) by lra.
    apply (Rmult_le_compat_r X) in H0; [|lra].
    replace (S * S / X * X) with (S * S) in H0 by (field; lra). lra.
Qed.

(* Euclidean distance as in RealVectorStateSpace::distance *)
Fixpoint sub (x y : list R) : list R :=
  match x, y with a :: x', b :: y' => (a - b) :: sub x' y' | _, _ => [] end.
Definition norm (u : list R) := sqrt (dot u u).
Definition dist (x y : list R) := norm (sub x y).

Lemma length_sub x : forall y, length x = length y -> length (sub x y) = length x.
Proof. induction x as [|a x IH]; intros [|b y] L; simpl in *; try discriminate; auto. Qed.

Lemma minkowski u v : length u = length v -> norm (lin 1 u v) <= norm u + norm v.
Proof.
  intros L. unfold norm.
  assert (HX := dot_self_nonneg u). assert (HY := dot_self_nonneg v).
  assert (Hs : 0 <= sqrt (dot u u) + sqrt (dot v v)) by (pose proof (sqrt_pos (dot u u)); pose proof (sqrt_pos (dot v v)); lra).
  apply Rsqr_incr_0_var; [|exact Hs].
  rewrite Rsqr_sqrt by apply dot_self_nonneg.
  rewrite (expand 1 u v L). unfold Rsqr.
  replace ((sqrt (dot u u) + sqrt (dot v v)) * (sqrt (dot u u) + sqrt (dot v v)))
    with (dot u u + 2 * (sqrt (dot u u) * sqrt (dot v v)) + dot v v)
    by (pose proof (sqrt_sqrt _ HX); pose proof (sqrt_sqrt _ HY); ring_simplify; rewrite ?Rmult_assoc; nra).
  assert (dot u v <= sqrt (dot u u) * sqrt (dot v v)).
  { rewrite <- sqrt_mult by assumption.
    destruct (Rle_dec 0 (dot u v)) as [P|P].
    - apply Rsqr_incr_0_var; [|apply sqrt_pos]. rewrite Rsqr_sqrt by (apply Rmult_le_pos; assumption).
      unfold Rsqr. apply cauchy_schwarz; exact L.
    - pose proof (sqrt_pos (dot u u * dot v v)). lra. }
  lra.
Qed.

Lemma lin1_sub x : forall y z, length x = length y -> length y = length z ->
  lin 1 (sub x y) (sub y z) = sub x z.
Proof.
  induction x as [|a x IH]; intros [|b y] [|c z] L1 L2; simpl in *; try discriminate; auto.
  injection L1 as L1. injection L2 as L2. rewrite (IH y z L1 L2). f_equal. ring.
Qed.

Theorem dist_triangle x y z : length x = length y -> length y = length z ->
  dist x z <= dist x y + dist y z.
Proof.
  intros L1 L2. unfold dist. rewrite <- (lin1_sub x y z L1 L2).
  apply minkowski. rewrite !length_sub; congruence.
Qed.
Print Assumptions dist_triangle.
